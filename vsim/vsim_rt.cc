// vsim runtime.  Compiled WITHOUT sanitizers and WITHOUT coverage instrumentation: the baton
// (raw futex) is invisible to TSan on purpose, so the only happens-before edges TSan sees are the
// ones the code under test creates through its own synchronisation.
#include "vsim_rt.h"

#include <linux/futex.h>
#include <pthread.h>
#include <signal.h>
#include <sys/mman.h>
#include <sys/syscall.h>
#include <unistd.h>

#include <cstdio>
#include <cstdlib>
#include <cstring>

extern "C" { volatile int vsim_race_flag = 0; }
namespace vsim {
namespace {
constexpr int MAXT = 128;
enum St { FREE = 0, RUN, BLOCKED, PARKED, DONE };
struct Th {
  int id; int fw; St st; const void* on; uint64_t wake_at; bool timed_out; bool joined;
  void (*fn)(void*); void* arg;
  // spin detection
  struct { const void* obj; uint64_t val; } seen[4]; int nseen; uint64_t epoch_mark; int spin;
  int prio;
};
Th ths[MAXT];
int nth = 0;
// Real pthreads are pooled and reused for successive simulated threads (within and across runs):
// creating and destroying ~10^5 kernel threads per second is what limited throughput in this VM
// (16 concurrent driver processes ran 13-35x slower than one).  Assignment is LIFO and therefore a
// deterministic function of the run.  Consequence, stated in DESIGN.md: thread_local state of the code
// under test survives from one simulated thread to the next one served by the same pthread.
struct Worker { pthread_t pt; int start; Th* cur; int idx; };
Worker workers[MAXT];
int nworkers = 0;
int freelist[MAXT];
int nfree = 0;
thread_local int tl_id = -1;
volatile bool g_on = false;
int n_run = 0;
Config cfg;
uint64_t rng_s, opp, nseq, thash, write_epoch, noprog, now, bb_total;
Stats st;
// NOTE: no std:: templates in this file.  Template instantiations are COMDAT and the linker may pick
// the copy compiled with coverage/TSan instrumentation from a harness TU, which would re-enter the
// scheduler from inside itself.
// Chunked, mmap-backed, never moved or freed: libc realloc/memcpy are intercepted by TSan even when called
// from this uninstrumented file, and would be reported as races on the simulator's own bookkeeping.
template <class T> struct Vec {
  static constexpr size_t CH = 1 << 14;
  T* chunk[1 << 12] = {nullptr}; size_t n = 0;
  void clear() { n = 0; }
  T& at(size_t i) { return chunk[i / CH][i % CH]; }
  void push(const T& v) {
    size_t c = n / CH;
    if (c >= (1 << 12)) abort();
    if (!chunk[c]) {
      void* m = mmap(nullptr, CH * sizeof(T), PROT_READ | PROT_WRITE, MAP_PRIVATE | MAP_ANONYMOUS, -1, 0);
      if (m == MAP_FAILED) abort();
      chunk[c] = (T*)m;
    }
    chunk[c][n % CH] = v; n++;
  }
};
Vec<Decision> rec;
const Decision* rp = nullptr; size_t rp_n = 0, rp_i = 0; bool replaying = false; uint64_t rp_skipped = 0;
uint64_t pct_cp[8]; int pct_ncp = 0;
int pct_low;
struct Ev { uint64_t seq; int tid; int kind; const void* obj; long v; };
constexpr int RING = 4096;
Ev ring[RING]; uint64_t nev = 0;
Vec<Ev> fulllog;
Vec<const void*> ids;

// not libc memset: TSan intercepts it even from this uninstrumented file
inline void zero(void* p, size_t n) { volatile char* c = (volatile char*)p; for (size_t i = 0; i < n; i++) c[i] = 0; }
inline void fpost(int* w) {
  __atomic_store_n(w, 1, __ATOMIC_SEQ_CST);
  syscall(SYS_futex, w, FUTEX_WAKE_PRIVATE, 1, 0, 0, 0);
}
inline void fwait(int* w) {
  for (;;) {
    int one = 1;
    if (__atomic_compare_exchange_n(w, &one, 0, false, __ATOMIC_SEQ_CST, __ATOMIC_SEQ_CST)) return;
    syscall(SYS_futex, w, FUTEX_WAIT_PRIVATE, 0, 0, 0, 0);
  }
}
inline uint64_t rnd() {
  rng_s ^= rng_s << 13; rng_s ^= rng_s >> 7; rng_s ^= rng_s << 17;
  return rng_s * 0x2545F4914F6CDD1DULL;
}
inline void mix(uint64_t v) { thash = (thash ^ v) * 0x100000001b3ULL; thash ^= thash >> 29; }
inline void logev(int kind, const void* obj, long v) {
  Ev e{nseq, tl_id, kind, obj, v};
  ring[nev % RING] = e; nev++;
  if (cfg.keep_log) fulllog.push(e);
}
inline void set_state(Th& t, St s) {
  if (t.st == RUN) n_run--;
  t.st = s;
  if (s == RUN) n_run++;
  if ((uint64_t)n_run > st.max_runnable) st.max_runnable = n_run;
}
const Decision* lookup() {
  while (rp_i < rp_n && rp[rp_i].opp < opp) { rp_i++; rp_skipped++; }
  if (rp_i < rp_n && rp[rp_i].opp == opp) return &rp[rp_i++];
  return nullptr;
}
int runnable(int* c) {
  int n = 0;
  for (int i = 0; i < nth; i++) if (ths[i].st == RUN) c[n++] = i;
  return n;
}
// nothing runnable: unpark spinners, else advance simulated time, else deadlock
int recover(int* c) {
  int np = 0;
  for (int i = 0; i < nth; i++) if (ths[i].st == PARKED) np++;
  if (np) {
    st.unpark_rounds++;
    if (++noprog > cfg.noprogress_limit) {
      char b[256]; int first = -1;
      for (int i = 0; i < nth; i++) if (ths[i].st == PARKED && first < 0) first = i;
      snprintf(b, sizeof b, "no progress in %llu unpark rounds; %d spinning thread(s), first t%d",
               (unsigned long long)noprog, np, first);
      fail("livelock", b);
    }
    for (int i = 0; i < nth; i++) if (ths[i].st == PARKED) { set_state(ths[i], RUN); ths[i].spin = 0; ths[i].nseen = 0; }
    return runnable(c);
  }
  int best = -1;
  for (int i = 0; i < nth; i++)
    if (ths[i].st == BLOCKED && ths[i].wake_at && (best < 0 || ths[i].wake_at < ths[best].wake_at)) best = i;
  if (best >= 0) {
    if (ths[best].wake_at > now) now = ths[best].wake_at;
    ths[best].timed_out = true; ths[best].wake_at = 0; ths[best].on = nullptr;
    set_state(ths[best], RUN);
    return runnable(c);
  }
  char b[512]; int o = snprintf(b, sizeof b, "no runnable thread:");
  for (int i = 0; i < nth && o < 480; i++)
    if (ths[i].st == BLOCKED) o += snprintf(b + o, sizeof b - o, " t%d blocked on obj%d;", i, object_id(ths[i].on));
  fail("deadlock", b);
}
int policy_pick(const int* c, int n, bool cur_ok) {
  int cur = tl_id;
  switch (cfg.policy) {
    case P_STICKY:
      if (cur_ok && (int)(rnd() % 1000000) >= cfg.sticky_ppm) return cur;
      return c[rnd() % n];
    case P_PCT: {
      int b = c[0];
      for (int i = 1; i < n; i++) if (ths[c[i]].prio > ths[b].prio) b = c[i];
      return b;
    }
    case P_STARVE:
      if (opp < cfg.starve_len && n > 1) {
        int k[MAXT], m = 0;
        for (int i = 0; i < n; i++) if (c[i] != cfg.starve_victim) k[m++] = c[i];
        if (m) return k[rnd() % m];
      }
      return c[rnd() % n];
    default:
      return c[rnd() % n];
  }
}
void switch_to(int next) {
  int me = tl_id;
  if (next == me) return;
  st.switches++;
  mix(0x5157000000000000ULL ^ (uint64_t)next);
  bool wait = ths[me].st != DONE;   // read before the baton leaves: afterwards this slot is not ours
  int* myw = &ths[me].fw;
  fpost(&ths[next].fw);
  if (wait) fwait(myw);
}
// choose who runs next; opp already incremented by the caller
void sched() {
  int c[MAXT];
  int n = runnable(c);
  if (!n) n = recover(c);
  int cur = tl_id;
  bool cur_ok = ths[cur].st == RUN;
  int dflt = cur_ok ? cur : c[0];
  int next;
  if (replaying) {
    const Decision* d = lookup();
    next = d ? d->val : dflt;
    if (next < 0 || next >= nth || ths[next].st != RUN) {
      char b[128]; snprintf(b, sizeof b, "replay chose t%d at opp %llu which is not runnable", next, (unsigned long long)opp);
      fail("replay-divergence", b);
    }
  } else {
    if (cfg.policy == P_PCT && cur_ok) {
      for (int i = 0; i < pct_ncp; i++) if (pct_cp[i] == opp) ths[cur].prio = --pct_low;
    }
    next = policy_pick(c, n, cur_ok);
  }
  if (next != dflt) rec.push({opp, next});
  switch_to(next);
}
extern "C" void __tsan_acquire(void*) __attribute__((weak));
extern "C" void __tsan_release(void*) __attribute__((weak));
inline void ts_acq(void* p) { if (__tsan_acquire) __tsan_acquire(p); }
inline void ts_rel(void* p) { if (__tsan_release) __tsan_release(p); }
void* worker_main(void* p) {
  Worker* w = (Worker*)p;
  {
    // alternate signal stack per worker pthread: a crash of the code under test with a trashed stack pointer (e.g. a longjmp
    // through a garbage jmp_buf) must still reach the driver's SIGSEGV handler and become a FAIL record, not a silent kill
    stack_t ss; memset(&ss, 0, sizeof ss);
    ss.ss_size = 1 << 16; ss.ss_sp = mmap(nullptr, ss.ss_size, PROT_READ | PROT_WRITE, MAP_PRIVATE | MAP_ANONYMOUS, -1, 0);
    if (ss.ss_sp != MAP_FAILED) sigaltstack(&ss, nullptr);
  }
  for (;;) {
    fwait(&w->start);
    Th* t = w->cur;
    tl_id = t->id;
    fwait(&t->fw);            // first time this simulated thread is scheduled
    ts_acq(t);                // spawn happens-before the thread's first action
    t->fn(t->arg);
    // exit: no repo code runs on behalf of this simulated thread after this line
    nseq++; st.points++; st.kind_count[K_EXIT]++;
    mix(((uint64_t)t->id << 56) ^ ((uint64_t)K_EXIT << 48));
    logev(K_EXIT, nullptr, 0);
    ts_rel((char*)t + 1);     // everything the thread did happens-before the return of join()
    set_state(*t, DONE);
    noprog = 0;
    wake_all(t);
    freelist[nfree++] = w->idx;   // while still holding the baton
    tl_id = t->id;
    opp++;
    sched();                  // hands the baton over and does not wait (state DONE)
    tl_id = -1;
  }
  return nullptr;
}
// preemption at a basic-block edge / memory access: returns the thread to switch to, or -1.
// Called only with >=2 runnable threads; opp already incremented.
inline int preempt_target(int ppm) {
  int cur = tl_id;
  if (replaying) {
    while (rp_i < rp_n && rp[rp_i].opp < opp) { rp_i++; rp_skipped++; }
    if (!(rp_i < rp_n && rp[rp_i].opp == opp)) return -1;
    int next = rp[rp_i++].val;
    if (next < 0 || next >= nth || ths[next].st != RUN) {
      char b[128]; snprintf(b, sizeof b, "replay chose t%d at opp %llu which is not runnable", next, (unsigned long long)opp);
      fail("replay-divergence", b);
    }
    return next;
  }
  int c[MAXT];
  if (cfg.policy == P_PCT) {
    bool hit = false;
    for (int i = 0; i < pct_ncp; i++) if (pct_cp[i] == opp) hit = true;
    if (!hit) return -1;
    ths[cur].prio = --pct_low;
    int n = runnable(c);
    int b = c[0];
    for (int i = 1; i < n; i++) if (ths[c[i]].prio > ths[b].prio) b = c[i];
    return b;
  }
  if (!ppm || (int)(rnd() % 1000000) >= ppm) return -1;
  int n = 0;
  for (int i = 0; i < nth; i++) if (ths[i].st == RUN && i != cur) c[n++] = i;
  if (!n) return -1;
  return c[rnd() % n];
}
inline void do_preempt(int next, long code, uint64_t* counter) {
  (*counter)++; nseq++; st.points++; st.kind_count[K_PREEMPT]++;
  mix(((uint64_t)tl_id << 56) ^ ((uint64_t)K_PREEMPT << 48) ^ (uint64_t)code);
  logev(K_PREEMPT, nullptr, code);
  rec.push({opp, next});
  switch_to(next);
}
}  // namespace

bool active() { return g_on && tl_id >= 0; }
int self() { return tl_id; }   // -1 on a thread the simulator does not own (main before the first run)
uint64_t seq() { return nseq; }
uint64_t trace_hash() { return thash; }
unsigned hw_concurrency() { return g_on ? cfg.hw_concurrency : 8; }
uint64_t now_ns() { return now; }
void progress() { noprog = 0; }

Stats stats() {
  Stats s = st;
  s.opportunities = opp; s.threads = nth; s.sim_ns = now;
  return s;
}
void set_replay(const Decision* d, size_t n) { rp = d; rp_n = n; }
size_t ndecisions() { return rec.n; }
Decision decision_at(size_t i) { return rec.at(i); }

void begin(const Config& c) {
  cfg = c;
  rng_s = c.seed * 0x9E3779B97F4A7C15ULL + 0x632BE59BD9B4E019ULL;
  if (!rng_s) rng_s = 1;
  for (int i = 0; i < 8; i++) rnd();
  opp = nseq = write_epoch = noprog = now = bb_total = 0; nev = 0;
  thash = 0xcbf29ce484222325ULL;
  zero(&st, sizeof st);
  rec.clear(); fulllog.clear(); ids.clear();
  replaying = rp != nullptr; rp_i = 0; rp_skipped = 0;
  zero(ths, sizeof ths);
  nth = 1; n_run = 0;
  ths[0].id = 0; set_state(ths[0], RUN); ths[0].joined = true;
  tl_id = 0;
  pct_ncp = 0; pct_low = 0;
  if (cfg.policy == P_PCT) {
    for (int i = 0; i + 1 < cfg.pct_depth && i < 8; i++) pct_cp[pct_ncp++] = 1 + rnd() % (cfg.pct_len ? cfg.pct_len : 1);
    ths[0].prio = 1000 + (int)(rnd() % 1000);
  }
  g_on = true;
}
void end() {
  if (vsim_race_flag) { vsim_race_flag = 0; fail("race", "ThreadSanitizer reported a data race (report on stderr of this run)"); }
  for (int i = 1; i < nth; i++) {
    if (ths[i].st != DONE || !ths[i].joined) {
      char b[128]; snprintf(b, sizeof b, "thread t%d still alive (state %d) at end of run", i, (int)ths[i].st);
      fail("thread-leak", b);
    }
  }
  g_on = false;
  if (replaying && rp_i < rp_n) rp_skipped += rp_n - rp_i;
  rp = nullptr; rp_n = 0;
}

void point(Kind k, const void* obj, long v) {
  if (!active()) return;
  if (vsim_race_flag) { vsim_race_flag = 0; fail("race", "ThreadSanitizer reported a data race (report on stderr of this run)"); }
  nseq++; st.points++; st.kind_count[k]++;
  mix(((uint64_t)tl_id << 56) ^ ((uint64_t)k << 48) ^ (uint64_t)v);
  logev(k, obj, v);
  opp++;
  if (cfg.opp_cap && opp > cfg.opp_cap) fail("livelock", "run exceeded the scheduling-opportunity cap: some thread keeps running without the run ever finishing");
  if (n_run < 2 && ths[tl_id].st == RUN) return;  // nothing to decide (same in record and replay)
  sched();
}
void note(long a, long b) {
  if (!active()) return;
  nseq++;
  mix(0x7700000000000000ULL ^ ((uint64_t)tl_id << 48) ^ ((uint64_t)a << 24) ^ (uint64_t)b);
  logev(K_USER, nullptr, a * 1000003 + b);
}
void loaded(const void* obj, uint64_t value) {
  if (!active()) return;
  Th& t = ths[tl_id];
  if (t.epoch_mark != write_epoch) { t.epoch_mark = write_epoch; t.nseen = 0; t.spin = 0; }
  bool hit = false;
  for (int i = 0; i < t.nseen; i++)
    if (t.seen[i].obj == obj) { hit = true; if (t.seen[i].val == value) t.spin++; else { t.seen[i].val = value; t.spin = 0; } }
  if (!hit) {
    if (t.nseen < 4) { t.seen[t.nseen].obj = obj; t.seen[t.nseen].val = value; t.nseen++; }
    else { t.nseen = 0; t.spin = 0; }
  }
  if (t.spin >= 3) {
    // spinning: soft-park until any simulated atomic/mutex is written, or nobody else can run
    st.parks++;
    t.spin = 0; t.nseen = 0;
    set_state(t, PARKED);
    opp++;
    sched();
  }
}
void written(const void* obj) {
  if (!g_on) return;
  write_epoch++;
  noprog = 0;
  for (int i = 0; i < nth; i++) if (ths[i].st == PARKED) set_state(ths[i], RUN);
}
void block_on(const void* obj) {
  if (!active()) { fprintf(stderr, "vsim: blocking primitive contended outside a simulation run\n"); abort(); }
  Th& t = ths[tl_id];
  st.blocks++;
  t.on = obj; t.wake_at = 0; t.timed_out = false;
  set_state(t, BLOCKED);
  opp++;
  sched();
}
bool block_on_timed(const void* obj, uint64_t ns) {
  Th& t = ths[tl_id];
  st.blocks++;
  t.on = obj; t.wake_at = now + (ns ? ns : 1); t.timed_out = false;
  set_state(t, BLOCKED);
  opp++;
  sched();
  return !t.timed_out;
}
void wake_all(const void* obj) {
  for (int i = 0; i < nth; i++)
    if (ths[i].st == BLOCKED && ths[i].on == obj) { ths[i].on = nullptr; ths[i].wake_at = 0; ths[i].timed_out = false; set_state(ths[i], RUN); noprog = 0; }
}
int choose(int n) {
  if (!active() || n <= 1) return 0;
  opp++; st.choose_calls++;
  int v;
  if (replaying) { const Decision* d = lookup(); v = d ? d->val : 0; if (v < 0 || v >= n) v = 0; }
  else v = (int)(rnd() % n);
  if (v) rec.push({opp, v});
  mix(0xC400000000000000ULL ^ (uint64_t)v);
  return v;
}
bool coin_spurious() {
  if (!active()) return false;
  opp++;
  int v;
  if (replaying) { const Decision* d = lookup(); v = d ? d->val : 0; }
  else v = cfg.spurious_ppm && (int)(rnd() % 1000000) < cfg.spurious_ppm;
  if (v) { rec.push({opp, 1}); st.spurious++; }
  return v != 0;
}
void wake_one(const void* obj) {
  int c[MAXT], n = 0;
  for (int i = 0; i < nth; i++) if (ths[i].st == BLOCKED && ths[i].on == obj) c[n++] = i;
  if (!n) return;
  Th& t = ths[c[choose(n)]];
  t.on = nullptr; t.wake_at = 0; t.timed_out = false; set_state(t, RUN); noprog = 0;
}
int spawn(void (*fn)(void*), void* arg) {
  if (!active()) { fprintf(stderr, "vsim: thread spawned outside a simulation run\n"); abort(); }
  if (nth >= MAXT) fail("harness", "too many simulated threads");
  Th* t = &ths[nth];
  zero(t, sizeof *t);
  t->id = nth; t->fn = fn; t->arg = arg;
  if (cfg.policy == P_PCT && !replaying) t->prio = 1000 + (int)(rnd() % 1000);
  nth++;
  set_state(*t, RUN);
  noprog = 0;
  ts_rel(t);
  if (nfree) {
    Worker* w = &workers[freelist[--nfree]];
    w->cur = t;
    fpost(&w->start);
  } else {
    if (nworkers >= MAXT) fail("harness", "too many worker pthreads");
    Worker* w = &workers[nworkers];
    w->idx = nworkers++; w->start = 0; w->cur = t;
    static size_t stk = [] { const char* e = getenv("VSIM_STACK_KB"); return (size_t)(e ? atol(e) : 4096) << 10; }();
    pthread_attr_t a; pthread_attr_init(&a); pthread_attr_setstacksize(&a, stk);
    pthread_attr_setdetachstate(&a, PTHREAD_CREATE_DETACHED);
    if (pthread_create(&w->pt, &a, worker_main, w)) fail("harness", "pthread_create failed");
    pthread_attr_destroy(&a);
    fpost(&w->start);
  }
  point(K_SPAWN, nullptr, t->id);
  return t->id;
}
void join(int tid) {
  point(K_JOIN, nullptr, tid);
  while (ths[tid].st != DONE) block_on(&ths[tid]);
  ths[tid].joined = true;
  ts_acq((char*)&ths[tid] + 1);
}
void yield_now() { point(K_YIELD, nullptr, 0); }
void sleep_ns(uint64_t ns) {
  if (!active()) return;
  point(K_SLEEP, nullptr, (long)ns);
  static char token;
  Th& t = ths[tl_id];
  t.on = &token + 1 + tl_id; t.wake_at = now + (ns ? ns : 1); t.timed_out = false;
  set_state(t, BLOCKED);
  opp++;
  sched();
}

int object_id(const void* obj) {
  // first-seen order: for human eyes only, never hashed, never used in a decision
  if (!obj) return 0;
  for (size_t i = 0; i < ids.n; i++) if (ids.at(i) == obj) return (int)i + 1;
  ids.push(obj);
  return (int)ids.n;
}
static const char* kname(int k) {
  static const char* n[] = {"start", "aload", "astore", "armw", "await", "anotify", "mlock", "munlock", "cvwait",
                            "cvnotify", "spawn", "join", "exit", "preempt", "user", "yield", "fence", "sleep", "choose", "once"};
  return k >= 0 && k < K_NKINDS ? n[k] : "?";
}
void dump_log(int fd) {
  // no stdio streams / malloc here: may run from a signal handler after heap corruption
  char b[160];
  auto emit = [&](const Ev& e) {
    int n = snprintf(b, sizeof b, "%llu t%d %s obj%d %ld\n", (unsigned long long)e.seq, e.tid, kname(e.kind), object_id(e.obj), e.v);
    if (n > 0 && write(fd, b, (size_t)n) < 0) {}
  };
  if (cfg.keep_log) {
    for (size_t i = 0; i < fulllog.n; i++) emit(fulllog.at(i));
  } else {
    uint64_t b0 = nev > RING ? nev - RING : 0;
    for (uint64_t i = b0; i < nev; i++) emit(ring[i % RING]);
  }
}
void fail(const char* cls, const char* msg) {
  g_on = false;
  vsim_fail_hook(cls, msg);
  _exit(10);
}
}  // namespace vsim

extern "C" {
__attribute__((weak)) void vsim_fail_hook(const char* cls, const char* msg) {
  printf("FAIL class=%s msg=%s\n", cls, msg);
  fflush(stdout);
}
void vsim_c_point(int kind, const void* obj, int mo) { vsim::point((vsim::Kind)kind, obj, mo); }
void vsim_c_loaded(const void* obj, unsigned long long v) { vsim::loaded(obj, v); }
void vsim_c_written(const void* obj) { vsim::written(obj); }

// ---- coverage callbacks: preemption at basic-block edges and at loads/stores ----
static uint32_t* g_guard0;
void __sanitizer_cov_trace_pc_guard_init(uint32_t* start, uint32_t* stop) {
  if (!g_guard0) g_guard0 = start;
  for (uint32_t* p = start; p < stop; p++) *p = 1;
}
void __sanitizer_cov_trace_pc_guard(uint32_t* g) {
  using namespace vsim;
  if (!g_on || tl_id < 0) return;
  if (cfg.opp_cap && ++bb_total > cfg.opp_cap * 16) fail("livelock", "run executed an unbounded number of basic blocks without finishing");
  if (n_run < 2) return;
  if (!cfg.bb_ppm && cfg.policy != P_PCT) return;   // same gating in record and replay
  opp++;
  if (cfg.opp_cap && opp > cfg.opp_cap) fail("livelock", "run exceeded the scheduling-opportunity cap: some thread keeps running without the run ever finishing");
  int next = preempt_target(cfg.bb_ppm);
  if (next < 0 || next == tl_id) return;
  do_preempt(next, (long)(g - g_guard0), &st.preempt_bb);
}
static inline void ls_cb(int code) {
  using namespace vsim;
  if (!g_on || n_run < 2 || tl_id < 0) return;
  if (!cfg.ls_ppm) return;
  opp++;
  int next = preempt_target(cfg.ls_ppm);
  if (next < 0 || next == tl_id) return;
  do_preempt(next, 1000000 + code, &st.preempt_ls);
}
#define LSCB(n) \
  void __sanitizer_cov_load##n(void* a) { ls_cb(100 + n); } \
  void __sanitizer_cov_store##n(void* a) { ls_cb(200 + n); }
LSCB(1) LSCB(2) LSCB(4) LSCB(8) LSCB(16)
}
