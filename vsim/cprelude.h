// Force-included into C TUs (and, through prelude.h, C++ TUs) of the sim* variants:
// every GCC __atomic builtin the tree uses becomes a scheduling point, followed by the REAL
// builtin with the memory order the code passed (so TSan models exactly that order).
#ifndef VSIM_CPRELUDE_H_
#define VSIM_CPRELUDE_H_
#ifdef __cplusplus
extern "C" {
#endif
void vsim_c_point(int kind, const void* obj, int mo);
void vsim_c_loaded(const void* obj, unsigned long long v);
void vsim_c_written(const void* obj);
#ifdef __cplusplus
}
#endif
// kinds: 1 load, 2 store, 3 rmw (see vsim_rt.h)
#define __atomic_load_n(p, mo) \
  ({ vsim_c_point(1, (p), (mo)); __typeof__(*(p)) vs_r_ = __atomic_load_n((p), (mo)); \
     vsim_c_loaded((p), (unsigned long long)vs_r_); vs_r_; })
#define __atomic_store_n(p, v, mo) \
  ({ vsim_c_point(2, (p), (mo)); __atomic_store_n((p), (v), (mo)); vsim_c_written((p)); })
#define __atomic_exchange_n(p, v, mo) \
  ({ vsim_c_point(3, (p), (mo)); __typeof__(*(p)) vs_r_ = __atomic_exchange_n((p), (v), (mo)); \
     vsim_c_written((p)); vs_r_; })
#define __atomic_fetch_add(p, v, mo) \
  ({ vsim_c_point(3, (p), (mo)); __typeof__(*(p)) vs_r_ = __atomic_fetch_add((p), (v), (mo)); \
     vsim_c_written((p)); vs_r_; })
#define __atomic_fetch_sub(p, v, mo) \
  ({ vsim_c_point(3, (p), (mo)); __typeof__(*(p)) vs_r_ = __atomic_fetch_sub((p), (v), (mo)); \
     vsim_c_written((p)); vs_r_; })
#define __atomic_compare_exchange_n(p, e, d, w, s, f) \
  ({ vsim_c_point(3, (p), (s)); _Bool vs_ok_ = __atomic_compare_exchange_n((p), (e), (d), (w), (s), (f)); \
     if (vs_ok_) vsim_c_written((p)); vs_ok_; })
#endif
