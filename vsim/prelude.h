// Force-included (-include) before every TU of the sim* variants.
// Step 1: include every standard header the tree may use, so their include guards are spent.
// Step 2: define simulator-owned replacements for the C++20 concurrency surface.
// Step 3: #define the std names to the replacements, so the UNMODIFIED repo sources bind to them.
#ifndef VSIM_PRELUDE_H_
#define VSIM_PRELUDE_H_
#ifdef __cplusplus
#include <algorithm>
#include <array>
#include <atomic>
#include <barrier>
#include <bit>
#include <bitset>
#include <cassert>
#include <cctype>
#include <cerrno>
#include <cfloat>
#include <charconv>
#include <chrono>
#include <cinttypes>
#include <climits>
#include <clocale>
#include <cmath>
#include <compare>
#include <complex>
#include <concepts>
#include <condition_variable>
#include <csetjmp>
#include <csignal>
#include <cstdarg>
#include <cstddef>
#include <cstdint>
#include <cstdio>
#include <cstdlib>
#include <cstring>
#include <ctime>
#include <deque>
#include <exception>
#include <filesystem>
#include <fstream>
#include <functional>
#include <future>
#include <initializer_list>
#include <iomanip>
#include <ios>
#include <iostream>
#include <istream>
#include <iterator>
#include <latch>
#include <limits>
#include <list>
#include <locale>
#include <map>
#include <memory>
#include <mutex>
#include <new>
#include <numeric>
#include <optional>
#include <ostream>
#include <queue>
#include <random>
#include <ratio>
#include <regex>
#include <semaphore>
#include <set>
#include <shared_mutex>
#include <span>
#include <sstream>
#include <stack>
#include <stdexcept>
#include <stop_token>
#include <string>
#include <string_view>
#include <system_error>
#include <thread>
#include <tuple>
#include <type_traits>
#include <typeinfo>
#include <unordered_map>
#include <unordered_set>
#include <utility>
#include <variant>
#include <vector>
#include <pthread.h>
#include <sched.h>
#include <unistd.h>

#include "vsim_rt.h"

#if defined(VSIM_TSAN)
extern "C" void __tsan_acquire(void*);
extern "C" void __tsan_release(void*);
#define VS_TACQ(p) __tsan_acquire((void*)(p))
#define VS_TREL(p) __tsan_release((void*)(p))
#else
#define VS_TACQ(p) ((void)0)
#define VS_TREL(p) ((void)0)
#endif
// shims: never inlined into instrumented code and never themselves preempted mid-protocol
#define VS_SHIM __attribute__((noinline, no_sanitize("coverage")))
// lock-family shims: their own bookkeeping fields are simulator state, not program state, so TSan must not
// see them; the happens-before edges a real lock provides are asserted explicitly with VS_TACQ / VS_TREL.
// (atomic<T> shims stay instrumented: they execute the real atomic builtin with the program's memory order.)
#define VS_LOCKSHIM __attribute__((noinline, no_sanitize("coverage"), no_sanitize("thread")))

namespace std {

// ---------------------------------------------------------------- atomic<T>
template <class T>
class vsim_atomic {
  static_assert(is_trivially_copyable_v<T> && sizeof(T) <= 8, "vsim_atomic supports word-sized trivially copyable T");
  T v_{};
  static uint64_t bits_(T x) noexcept { uint64_t b = 0; __builtin_memcpy(&b, &x, sizeof(T)); return b; }
  T* p_() const noexcept { return const_cast<T*>(&v_); }

 public:
  using value_type = T;
  using difference_type = conditional_t<is_pointer_v<T>, ptrdiff_t, T>;
  static constexpr bool is_always_lock_free = true;
  constexpr vsim_atomic() noexcept = default;
  constexpr vsim_atomic(T v) noexcept : v_(v) {}
  vsim_atomic(const vsim_atomic&) = delete;
  vsim_atomic& operator=(const vsim_atomic&) = delete;
  bool is_lock_free() const noexcept { return true; }

  VS_SHIM T load(memory_order mo = memory_order_seq_cst) const noexcept {
    vsim::point(vsim::K_ALOAD, this, (long)mo);
    T r; __atomic_load(p_(), &r, (int)mo);
    vsim::loaded(this, bits_(r));
    return r;
  }
  VS_SHIM void store(T d, memory_order mo = memory_order_seq_cst) noexcept {
    vsim::point(vsim::K_ASTORE, this, (long)mo);
    __atomic_store(p_(), &d, (int)mo);
    vsim::written(this);
  }
  VS_SHIM T exchange(T d, memory_order mo = memory_order_seq_cst) noexcept {
    vsim::point(vsim::K_ARMW, this, (long)mo);
    T r; __atomic_exchange(p_(), &d, &r, (int)mo);
    vsim::written(this);
    return r;
  }
  VS_SHIM bool compare_exchange_strong(T& e, T d, memory_order s, memory_order f) noexcept {
    vsim::point(vsim::K_ARMW, this, (long)s);
    bool ok = __atomic_compare_exchange(p_(), &e, &d, false, (int)s, (int)f);
    if (ok) vsim::written(this); else vsim::loaded(this, bits_(e));
    return ok;
  }
  bool compare_exchange_strong(T& e, T d, memory_order mo = memory_order_seq_cst) noexcept {
    return compare_exchange_strong(e, d, mo, fail_order_(mo));
  }
  bool compare_exchange_weak(T& e, T d, memory_order s, memory_order f) noexcept {
    // weak CAS may fail spuriously: a seeded buggify choice
    if (vsim::coin_spurious()) { T cur = load(f); (void)cur; e = cur; return false; }
    return compare_exchange_strong(e, d, s, f);
  }
  bool compare_exchange_weak(T& e, T d, memory_order mo = memory_order_seq_cst) noexcept {
    return compare_exchange_weak(e, d, mo, fail_order_(mo));
  }
#define VS_RMW(name, builtin)                                                                   \
  template <class U = T>                                                                        \
  VS_SHIM U name(difference_type d, memory_order mo = memory_order_seq_cst) noexcept            \
    requires(is_integral_v<U> || is_pointer_v<U>) {                                             \
    vsim::point(vsim::K_ARMW, this, (long)mo);                                                  \
    U r;                                                                                        \
    if constexpr (is_pointer_v<U>) r = builtin(p_(), d * (ptrdiff_t)sizeof(remove_pointer_t<U>), (int)mo); \
    else r = builtin(p_(), d, (int)mo);                                                         \
    vsim::written(this);                                                                        \
    return r;                                                                                   \
  }
  VS_RMW(fetch_add, __atomic_fetch_add)
  VS_RMW(fetch_sub, __atomic_fetch_sub)
#undef VS_RMW
#define VS_RMWI(name, builtin)                                                                  \
  template <class U = T>                                                                        \
  VS_SHIM U name(U d, memory_order mo = memory_order_seq_cst) noexcept requires(is_integral_v<U>) { \
    vsim::point(vsim::K_ARMW, this, (long)mo);                                                  \
    U r = builtin(p_(), d, (int)mo);                                                            \
    vsim::written(this);                                                                        \
    return r;                                                                                   \
  }
  VS_RMWI(fetch_and, __atomic_fetch_and)
  VS_RMWI(fetch_or, __atomic_fetch_or)
  VS_RMWI(fetch_xor, __atomic_fetch_xor)
#undef VS_RMWI
  VS_SHIM void wait(T old, memory_order mo = memory_order_seq_cst) const noexcept {
    for (;;) {
      vsim::point(vsim::K_AWAIT, this, (long)mo);
      T r; __atomic_load(p_(), &r, (int)mo);
      if (bits_(r) != bits_(old)) return;
      if (vsim::coin_spurious()) continue;  // spurious unblock: re-check, as the standard allows
      vsim::block_on(this);                 // value check and block: no scheduling point in between
    }
  }
  VS_SHIM void notify_all() noexcept { vsim::point(vsim::K_ANOTIFY, this, 0); vsim::wake_all(this); }
  VS_SHIM void notify_one() noexcept { vsim::point(vsim::K_ANOTIFY, this, 1); vsim::wake_one(this); }

  operator T() const noexcept { return load(); }
  T operator=(T d) noexcept { store(d); return d; }
  template <class U = T> U operator++() noexcept requires(is_integral_v<U> || is_pointer_v<U>) { return fetch_add(1) + 1; }
  template <class U = T> U operator++(int) noexcept requires(is_integral_v<U> || is_pointer_v<U>) { return fetch_add(1); }
  template <class U = T> U operator--() noexcept requires(is_integral_v<U> || is_pointer_v<U>) { return fetch_sub(1) - 1; }
  template <class U = T> U operator--(int) noexcept requires(is_integral_v<U> || is_pointer_v<U>) { return fetch_sub(1); }
  template <class U = T> U operator+=(difference_type d) noexcept requires(is_integral_v<U> || is_pointer_v<U>) { return fetch_add(d) + d; }
  template <class U = T> U operator-=(difference_type d) noexcept requires(is_integral_v<U> || is_pointer_v<U>) { return fetch_sub(d) - d; }
  template <class U = T> U operator&=(U d) noexcept requires(is_integral_v<U>) { return fetch_and(d) & d; }
  template <class U = T> U operator|=(U d) noexcept requires(is_integral_v<U>) { return fetch_or(d) | d; }
  template <class U = T> U operator^=(U d) noexcept requires(is_integral_v<U>) { return fetch_xor(d) ^ d; }

 private:
  static constexpr memory_order fail_order_(memory_order m) noexcept {
    return m == memory_order_acq_rel ? memory_order_acquire : m == memory_order_release ? memory_order_relaxed : m;
  }
};
typedef vsim_atomic<bool> vsim_atomic_bool;
typedef vsim_atomic<char> vsim_atomic_char;
typedef vsim_atomic<int> vsim_atomic_int;
typedef vsim_atomic<unsigned> vsim_atomic_uint;
typedef vsim_atomic<long> vsim_atomic_long;
typedef vsim_atomic<unsigned long> vsim_atomic_ulong;
typedef vsim_atomic<long long> vsim_atomic_llong;
typedef vsim_atomic<unsigned long long> vsim_atomic_ullong;
typedef vsim_atomic<size_t> vsim_atomic_size_t;
typedef vsim_atomic<int32_t> vsim_atomic_int32_t;
typedef vsim_atomic<uint32_t> vsim_atomic_uint32_t;
typedef vsim_atomic<int64_t> vsim_atomic_int64_t;
typedef vsim_atomic<uint64_t> vsim_atomic_uint64_t;
typedef vsim_atomic<uintptr_t> vsim_atomic_uintptr_t;

class vsim_atomic_flag {
  vsim_atomic<bool> f_{false};
 public:
  constexpr vsim_atomic_flag() noexcept = default;
  bool test_and_set(memory_order mo = memory_order_seq_cst) noexcept { return f_.exchange(true, mo); }
  void clear(memory_order mo = memory_order_seq_cst) noexcept { f_.store(false, mo); }
  bool test(memory_order mo = memory_order_seq_cst) const noexcept { return f_.load(mo); }
  void wait(bool old, memory_order mo = memory_order_seq_cst) const noexcept { f_.wait(old, mo); }
  void notify_one() noexcept { f_.notify_one(); }
  void notify_all() noexcept { f_.notify_all(); }
};
VS_SHIM inline void vsim_atomic_thread_fence(memory_order mo) noexcept {
  vsim::point(vsim::K_FENCE, nullptr, (long)mo);
  __atomic_thread_fence((int)mo);
}

// ---------------------------------------------------------------- simulated clock
namespace chrono {
struct vsim_steady_clock {
  using rep = int64_t; using period = nano; using duration = chrono::duration<rep, period>;
  using time_point = chrono::time_point<vsim_steady_clock>;
  static constexpr bool is_steady = true;
  static time_point now() noexcept { return time_point(duration((int64_t)vsim::now_ns())); }
};
}  // namespace chrono

// ---------------------------------------------------------------- mutexes
class vsim_mutex {
  int owner_ = 0;   // 0 free, else vsim::self()+2 (so the main thread outside a run is 1)
 public:
  constexpr vsim_mutex() noexcept = default;
  vsim_mutex(const vsim_mutex&) = delete;
  vsim_mutex& operator=(const vsim_mutex&) = delete;
  using native_handle_type = void*;
  VS_LOCKSHIM void lock() {
    for (;;) {
      vsim::point(vsim::K_MLOCK, this, 0);
      if (!owner_) { owner_ = vsim::self() + 2; VS_TACQ(this); vsim::progress(); return; }
      if (owner_ == vsim::self() + 2) vsim::fail("self-deadlock", "non-recursive mutex locked twice by its owner");
      vsim::block_on(this);
    }
  }
  VS_LOCKSHIM bool try_lock() {
    vsim::point(vsim::K_MLOCK, this, 1);
    if (!owner_) { owner_ = vsim::self() + 2; VS_TACQ(this); vsim::progress(); return true; }
    return false;
  }
  VS_LOCKSHIM void unlock() {
    if (owner_ != vsim::self() + 2) vsim::fail("bad-unlock", "mutex unlocked by a thread that does not own it");
    VS_TREL(this); owner_ = 0; vsim::wake_all(this); vsim::written(this);
    vsim::point(vsim::K_MUNLOCK, this, 0);
  }
  // used by condition_variable::wait: release without a scheduling point
  VS_LOCKSHIM void unlock_np_() { VS_TREL(this); owner_ = 0; vsim::wake_all(this); vsim::written(this); }
};
class vsim_recursive_mutex {
  int owner_ = 0; int depth_ = 0;
 public:
  constexpr vsim_recursive_mutex() noexcept = default;
  vsim_recursive_mutex(const vsim_recursive_mutex&) = delete;
  VS_LOCKSHIM void lock() {
    for (;;) {
      vsim::point(vsim::K_MLOCK, this, 2);
      if (!owner_ || owner_ == vsim::self() + 2) { owner_ = vsim::self() + 2; if (!depth_++) VS_TACQ(this); vsim::progress(); return; }
      vsim::block_on(this);
    }
  }
  VS_LOCKSHIM bool try_lock() {
    vsim::point(vsim::K_MLOCK, this, 3);
    if (!owner_ || owner_ == vsim::self() + 2) { owner_ = vsim::self() + 2; if (!depth_++) VS_TACQ(this); return true; }
    return false;
  }
  VS_LOCKSHIM void unlock() {
    if (--depth_ == 0) { VS_TREL(this); owner_ = 0; vsim::wake_all(this); vsim::written(this); }
    vsim::point(vsim::K_MUNLOCK, this, 2);
  }
};
class vsim_timed_mutex : public vsim_mutex {
 public:
  template <class R, class P> bool try_lock_for(const chrono::duration<R, P>& d) {
    if (try_lock()) return true;
    vsim::sleep_ns((uint64_t)chrono::duration_cast<chrono::nanoseconds>(d).count());
    return try_lock();
  }
  template <class C, class D> bool try_lock_until(const chrono::time_point<C, D>& t) { return try_lock_for(t - C::now()); }
};
class vsim_shared_mutex {
  int writer_ = 0; int readers_ = 0;
 public:
  constexpr vsim_shared_mutex() noexcept = default;
  vsim_shared_mutex(const vsim_shared_mutex&) = delete;
  VS_LOCKSHIM void lock() {
    for (;;) {
      vsim::point(vsim::K_MLOCK, this, 4);
      if (!writer_ && readers_ == 0) { writer_ = vsim::self() + 2; VS_TACQ(this); vsim::progress(); return; }
      vsim::block_on(this);
    }
  }
  VS_LOCKSHIM bool try_lock() {
    vsim::point(vsim::K_MLOCK, this, 5);
    if (!writer_ && readers_ == 0) { writer_ = vsim::self() + 2; VS_TACQ(this); return true; }
    return false;
  }
  VS_LOCKSHIM void unlock() { VS_TREL(this); writer_ = 0; vsim::wake_all(this); vsim::written(this); vsim::point(vsim::K_MUNLOCK, this, 4); }
  VS_LOCKSHIM void lock_shared() {
    for (;;) {
      vsim::point(vsim::K_MLOCK, this, 6);
      if (!writer_) { readers_++; VS_TACQ(this); vsim::progress(); return; }
      vsim::block_on(this);
    }
  }
  VS_LOCKSHIM bool try_lock_shared() {
    vsim::point(vsim::K_MLOCK, this, 7);
    if (!writer_) { readers_++; VS_TACQ(this); return true; }
    return false;
  }
  VS_LOCKSHIM void unlock_shared() {
    VS_TREL(this);
    if (--readers_ == 0) { vsim::wake_all(this); }
    vsim::written(this);
    vsim::point(vsim::K_MUNLOCK, this, 6);
  }
};

// ---------------------------------------------------------------- condition variables
class vsim_condition_variable {
 public:
  vsim_condition_variable() noexcept = default;
  vsim_condition_variable(const vsim_condition_variable&) = delete;
  VS_LOCKSHIM void notify_one() noexcept { vsim::point(vsim::K_CVNOTIFY, this, 1); vsim::wake_one(this); }
  VS_LOCKSHIM void notify_all() noexcept { vsim::point(vsim::K_CVNOTIFY, this, 0); vsim::wake_all(this); }
  VS_LOCKSHIM void wait(unique_lock<vsim_mutex>& lk) {
    vsim_mutex* m = lk.mutex();
    vsim::point(vsim::K_CVWAIT, this, 0);
    if (vsim::coin_spurious()) { m->unlock(); m->lock(); return; }
    m->unlock_np_();          // release + enqueue with no scheduling point in between
    vsim::block_on(this);
    m->lock();
  }
  template <class P> void wait(unique_lock<vsim_mutex>& lk, P pred) { while (!pred()) wait(lk); }
  VS_LOCKSHIM bool wait_ns_(unique_lock<vsim_mutex>& lk, uint64_t ns) {  // false on timeout
    vsim_mutex* m = lk.mutex();
    vsim::point(vsim::K_CVWAIT, this, 1);
    if (vsim::coin_spurious()) { m->unlock(); m->lock(); return true; }
    m->unlock_np_();
    bool woken = vsim::block_on_timed(this, ns);
    m->lock();
    return woken;
  }
  template <class R, class P> cv_status wait_for(unique_lock<vsim_mutex>& lk, const chrono::duration<R, P>& d) {
    int64_t ns = chrono::duration_cast<chrono::nanoseconds>(d).count();
    return wait_ns_(lk, ns > 0 ? (uint64_t)ns : 0) ? cv_status::no_timeout : cv_status::timeout;
  }
  template <class R, class P, class Pr> bool wait_for(unique_lock<vsim_mutex>& lk, const chrono::duration<R, P>& d, Pr pred) {
    int64_t ns = chrono::duration_cast<chrono::nanoseconds>(d).count();
    uint64_t deadline = vsim::now_ns() + (ns > 0 ? (uint64_t)ns : 0);
    while (!pred()) {
      uint64_t n = vsim::now_ns();
      if (n >= deadline) return pred();
      if (!wait_ns_(lk, deadline - n)) return pred();
    }
    return true;
  }
  template <class C, class D> cv_status wait_until(unique_lock<vsim_mutex>& lk, const chrono::time_point<C, D>& t) { return wait_for(lk, t - C::now()); }
  template <class C, class D, class Pr> bool wait_until(unique_lock<vsim_mutex>& lk, const chrono::time_point<C, D>& t, Pr pred) { return wait_for(lk, t - C::now(), pred); }
};

// ---------------------------------------------------------------- call_once
struct vsim_once_flag {
  int state_ = 0;  // 0 idle, 1 running, 2 done
  constexpr vsim_once_flag() noexcept = default;
  vsim_once_flag(const vsim_once_flag&) = delete;
  VS_LOCKSHIM bool enter_() {   // true: caller must run the function
    for (;;) {
      vsim::point(vsim::K_ONCE, this, state_);
      if (state_ == 2) { VS_TACQ(this); return false; }
      if (state_ == 0) { state_ = 1; return true; }
      vsim::block_on(this);
    }
  }
  VS_LOCKSHIM void leave_(bool ok) { if (ok) VS_TREL(this); state_ = ok ? 2 : 0; vsim::wake_all(this); vsim::written(this); }
};
template <class F, class... A>
void vsim_call_once(vsim_once_flag& f, F&& fn, A&&... a) {
  if (!f.enter_()) return;
  try { std::invoke(std::forward<F>(fn), std::forward<A>(a)...); } catch (...) { f.leave_(false); throw; }
  f.leave_(true);
}

// ---------------------------------------------------------------- thread
namespace vsim_this_thread {
inline void yield() noexcept { vsim::yield_now(); }
template <class R, class P> void sleep_for(const chrono::duration<R, P>& d) {
  int64_t ns = chrono::duration_cast<chrono::nanoseconds>(d).count();
  vsim::sleep_ns(ns > 0 ? (uint64_t)ns : 0);
}
template <class C, class D> void sleep_until(const chrono::time_point<C, D>& t) { sleep_for(t - C::now()); }
}  // namespace vsim_this_thread

class vsim_thread {
  int tid_ = -1;
  struct Box { function<void()> f; };
  static void run_(void* p) { Box* b = (Box*)p; b->f(); delete b; }
 public:
  class id {
    int v_ = -1;
   public:
    id() noexcept = default;
    explicit id(int v) noexcept : v_(v) {}
    friend bool operator==(id a, id b) noexcept { return a.v_ == b.v_; }
    friend auto operator<=>(id a, id b) noexcept { return a.v_ <=> b.v_; }
    int raw() const { return v_; }
    template <class C, class Tr> friend basic_ostream<C, Tr>& operator<<(basic_ostream<C, Tr>& o, id i) { return o << i.v_; }
  };
  using native_handle_type = int;
  vsim_thread() noexcept = default;
  template <class F, class... A>
    requires(!is_same_v<remove_cvref_t<F>, vsim_thread>)
  explicit vsim_thread(F&& f, A&&... a) {
    Box* b = new Box{[fn = decay_t<F>(std::forward<F>(f)), tup = make_tuple(decay_t<A>(std::forward<A>(a))...)]() mutable {
      std::apply([&](auto&... x) { std::invoke(std::move(fn), std::move(x)...); }, tup);
    }};
    tid_ = vsim::spawn(run_, b);
  }
  vsim_thread(vsim_thread&& o) noexcept : tid_(o.tid_) { o.tid_ = -1; }
  vsim_thread& operator=(vsim_thread&& o) noexcept {
    if (tid_ >= 0) std::terminate();
    tid_ = o.tid_; o.tid_ = -1; return *this;
  }
  vsim_thread(const vsim_thread&) = delete;
  ~vsim_thread() { if (tid_ >= 0) std::terminate(); }
  bool joinable() const noexcept { return tid_ >= 0; }
  void join() { if (tid_ < 0) throw system_error(make_error_code(errc::invalid_argument)); vsim::join(tid_); tid_ = -1; }
  void detach() { tid_ = -1; }   // a detached thread must still finish before the run ends
  id get_id() const noexcept { return id(tid_); }
  void swap(vsim_thread& o) noexcept { std::swap(tid_, o.tid_); }
  static unsigned hardware_concurrency() noexcept { return vsim::hw_concurrency(); }
};
namespace vsim_this_thread {
inline vsim_thread::id get_id() noexcept { return vsim_thread::id(vsim::self()); }
}
template <> struct hash<vsim_thread::id> { size_t operator()(vsim_thread::id i) const noexcept { return (size_t)i.raw(); } };

class vsim_jthread {
  vsim_thread t_;
 public:
  using id = vsim_thread::id;
  vsim_jthread() noexcept = default;
  template <class F, class... A>
    requires(!is_same_v<remove_cvref_t<F>, vsim_jthread>)
  explicit vsim_jthread(F&& f, A&&... a) : t_(std::forward<F>(f), std::forward<A>(a)...) {}
  vsim_jthread(vsim_jthread&&) noexcept = default;
  vsim_jthread& operator=(vsim_jthread&& o) noexcept { if (t_.joinable()) t_.join(); t_ = std::move(o.t_); return *this; }
  ~vsim_jthread() { if (t_.joinable()) t_.join(); }
  bool joinable() const noexcept { return t_.joinable(); }
  void join() { t_.join(); }
  void detach() { t_.detach(); }
  id get_id() const noexcept { return t_.get_id(); }
  static unsigned hardware_concurrency() noexcept { return vsim::hw_concurrency(); }
};

// ---------------------------------------------------------------- latch / semaphore
class vsim_latch {
  ptrdiff_t n_;
 public:
  explicit vsim_latch(ptrdiff_t n) : n_(n) {}
  vsim_latch(const vsim_latch&) = delete;
  VS_LOCKSHIM void count_down(ptrdiff_t k = 1) { vsim::point(vsim::K_ARMW, this, 0); VS_TREL(this); n_ -= k; vsim::written(this); if (n_ <= 0) vsim::wake_all(this); }
  VS_LOCKSHIM bool try_wait() const noexcept { vsim::point(vsim::K_ALOAD, this, 0); if (n_ <= 0) { VS_TACQ(this); return true; } return false; }
  VS_LOCKSHIM void wait() const { for (;;) { vsim::point(vsim::K_AWAIT, this, 0); if (n_ <= 0) { VS_TACQ(this); return; } vsim::block_on(this); } }
  void arrive_and_wait(ptrdiff_t k = 1) { count_down(k); wait(); }
};
template <ptrdiff_t Max = 0x7fffffff>
class vsim_counting_semaphore {
  ptrdiff_t n_;
 public:
  explicit vsim_counting_semaphore(ptrdiff_t n) : n_(n) {}
  vsim_counting_semaphore(const vsim_counting_semaphore&) = delete;
  static constexpr ptrdiff_t max() noexcept { return Max; }
  VS_LOCKSHIM void release(ptrdiff_t k = 1) { vsim::point(vsim::K_ARMW, this, 0); VS_TREL(this); n_ += k; vsim::written(this); vsim::wake_all(this); }
  VS_LOCKSHIM void acquire() { for (;;) { vsim::point(vsim::K_AWAIT, this, 0); if (n_ > 0) { n_--; VS_TACQ(this); vsim::progress(); return; } vsim::block_on(this); } }
  VS_LOCKSHIM bool try_acquire() noexcept { vsim::point(vsim::K_ALOAD, this, 0); if (n_ > 0) { n_--; VS_TACQ(this); return true; } return false; }
};
typedef vsim_counting_semaphore<1> vsim_binary_semaphore;

}  // namespace std

#define atomic vsim_atomic
#define atomic_bool vsim_atomic_bool
#define atomic_char vsim_atomic_char
#define atomic_int vsim_atomic_int
#define atomic_uint vsim_atomic_uint
#define atomic_long vsim_atomic_long
#define atomic_ulong vsim_atomic_ulong
#define atomic_llong vsim_atomic_llong
#define atomic_ullong vsim_atomic_ullong
#define atomic_size_t vsim_atomic_size_t
#define atomic_int32_t vsim_atomic_int32_t
#define atomic_uint32_t vsim_atomic_uint32_t
#define atomic_int64_t vsim_atomic_int64_t
#define atomic_uint64_t vsim_atomic_uint64_t
#define atomic_uintptr_t vsim_atomic_uintptr_t
#define atomic_flag vsim_atomic_flag
#define atomic_thread_fence vsim_atomic_thread_fence
#define thread vsim_thread
#define jthread vsim_jthread
#define this_thread vsim_this_thread
#define mutex vsim_mutex
#define recursive_mutex vsim_recursive_mutex
#define timed_mutex vsim_timed_mutex
#define shared_mutex vsim_shared_mutex
#define shared_timed_mutex vsim_shared_mutex
#define condition_variable vsim_condition_variable
#define once_flag vsim_once_flag
#define call_once vsim_call_once
#define latch vsim_latch
#define counting_semaphore vsim_counting_semaphore
#define binary_semaphore vsim_binary_semaphore
#define steady_clock vsim_steady_clock
#endif  // __cplusplus

#include "cprelude.h"
#endif  // VSIM_PRELUDE_H_
