// vsim: deterministic scheduler runtime for unmodified mujoco sources.
// One real pthread per simulated thread, exactly one holds the baton.  Every choice
// (who runs next, which waiter a notify_one wakes, spurious wake-ups, preemption at a
// basic-block edge or memory access) comes from one PRNG or, in replay, from a decision list.
#pragma once
#include <stddef.h>
#include <stdint.h>

#ifdef __cplusplus
namespace vsim {
enum Kind : int {
  K_START = 0, K_ALOAD, K_ASTORE, K_ARMW, K_AWAIT, K_ANOTIFY, K_MLOCK, K_MUNLOCK, K_CVWAIT,
  K_CVNOTIFY, K_SPAWN, K_JOIN, K_EXIT, K_PREEMPT, K_USER, K_YIELD, K_FENCE, K_SLEEP, K_CHOOSE,
  K_ONCE, K_NKINDS
};
enum Policy : int { P_RANDOM = 0, P_STICKY = 1, P_PCT = 2, P_STARVE = 3, P_NPOLICY };

struct Config {
  uint64_t seed = 0;
  int policy = P_RANDOM;
  int bb_ppm = 0;          // preemption probability per basic-block edge (per million), >=2 runnable only
  int ls_ppm = 0;          // same per instrumented load/store (simls variant)
  int sticky_ppm = 200000; // P_STICKY: probability of switching at a sync point
  int pct_depth = 2;       // P_PCT: number of priority change points + 1
  uint64_t pct_len = 1000; // P_PCT: change points are drawn in [1, pct_len] opportunities
  int starve_victim = 1;   // P_STARVE: tid not scheduled during the prefix unless alone
  uint64_t starve_len = 200;
  int spurious_ppm = 0;    // buggify: cv / atomic wait returns spuriously (legal per standard)
  unsigned hw_concurrency = 8;
  uint64_t noprogress_limit = 20000;  // livelock: unpark-all rounds without any progress
  uint64_t opp_cap = 0;    // 0 = none; backstop for livelocks that make "progress" (spinning RMWs): set by each driver to
                           // >=1000x the largest run seen on the unchanged tree, reported as class "livelock"
  int keep_log = 0;        // keep full event log (replay mode)
};

struct Stats {
  uint64_t points, opportunities, switches, preempt_bb, preempt_ls, parks, unpark_rounds,
      blocks, spurious, choose_calls, max_runnable, threads, kind_count[K_NKINDS];
  uint64_t sim_ns;
};

struct Decision { uint64_t opp; int val; };

void begin(const Config& cfg);
void end();                       // all spawned threads must be DONE and joined, else fail("thread-leak")
bool active();
int self();
uint64_t seq();                   // global event sequence number (monotone, for invoke/return stamps)
uint64_t trace_hash();
Stats stats();
unsigned hw_concurrency();

// replay: feed decisions instead of PRNG (call before begin); recording is always on
void set_replay(const Decision* d, size_t n);
size_t ndecisions();
Decision decision_at(size_t i);

// scheduling primitives used by the shims
void point(Kind k, const void* obj, long v);
void loaded(const void* obj, uint64_t value);   // spin detection after an atomic load
void written(const void* obj);                  // after an atomic store/RMW: unpark spinners, progress
void block_on(const void* obj);                 // current thread blocks until wake on obj
bool block_on_timed(const void* obj, uint64_t ns);  // returns false on timeout
void wake_all(const void* obj);
void wake_one(const void* obj);
int choose(int n);                              // seeded/replayed choice in [0,n)
bool coin_spurious();
int spawn(void (*fn)(void*), void* arg);
void join(int tid);
void yield_now();
void sleep_ns(uint64_t ns);
uint64_t now_ns();
void progress();

// harness side
void note(long a, long b);                      // user event: enters log and hash
[[noreturn]] void fail(const char* cls, const char* msg);
void dump_log(int fd);                          // human-readable event log (keep_log) / tail ring
int object_id(const void* obj);
}  // namespace vsim
extern "C" {
#endif

// set by the harness-side __tsan_on_report hook; turned into fail("race") at the next scheduling point
extern volatile int vsim_race_flag;
// C entry points (cprelude.h)
void vsim_c_point(int kind, const void* obj, int mo);
void vsim_c_loaded(const void* obj, unsigned long long v);
void vsim_c_written(const void* obj);
// harness-provided (weak default in runtime): called on failure before _exit(10)
void vsim_fail_hook(const char* cls, const char* msg);

#ifdef __cplusplus
}
#endif
