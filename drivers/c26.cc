// C26: the state vector API is a faithful serialization.
// All rules are applied to USED instances (stepped through seeded histories), because the claim is about
// every mjData, not about fresh ones; "nothing else changed" is decided by a whole-mjData diff.
#include "hist.h"

using namespace nd;
using namespace hs;

static const int NBITS = 14;
struct Comp { int bit; const char* field; };   // state component -> mjData array holding it
static const Comp kComp[] = {{mjSTATE_QPOS, "qpos"}, {mjSTATE_QVEL, "qvel"}, {mjSTATE_ACT, "act"}, {mjSTATE_HISTORY, "history"}, {mjSTATE_WARMSTART, "qacc_warmstart"},
                             {mjSTATE_CTRL, "ctrl"}, {mjSTATE_QFRC_APPLIED, "qfrc_applied"}, {mjSTATE_XFRC_APPLIED, "xfrc_applied"}, {mjSTATE_EQ_ACTIVE, "eq_active"},
                             {mjSTATE_MOCAP_POS, "mocap_pos"}, {mjSTATE_MOCAP_QUAT, "mocap_quat"}, {mjSTATE_USERDATA, "userdata"}, {mjSTATE_PLUGIN, "plugin_state"}};

static mjData* make_used(const mjModel* m, Rng& r, uint64_t seed) {
  mjData* d = mu::make_data(m, seed);
  for (int i = 0; i < m->nq; i++) d->qpos[i] += r.uniform(-0.03, 0.03);
  mj_normalizeQuat(m, d->qpos);
  for (int i = 0; i < m->nv; i++) d->qvel[i] = r.uniform(-0.5, 0.5);
  bool e = ND_GUARD({
    for (int k = 0, n = r.range(1, 10); k < n; k++) {
      for (int i = 0; i < m->nu; i++) d->ctrl[i] = r.uniform(-1, 1);
      if (m->nv) d->qfrc_applied[r.below(m->nv)] = r.uniform(-1, 1);
      if (m->nbody > 1) d->xfrc_applied[6 * r.range(1, m->nbody - 1) + r.below(6)] = r.uniform(-1, 1);
      for (int i = 0; i < m->nmocap * 3; i++) d->mocap_pos[i] += r.uniform(-0.01, 0.01);
      for (int i = 0; i < m->neq; i++) if (r.chance(0.3)) d->eq_active[i] = (mjtByte)r.below(2);
      for (int i = 0; i < m->nuserdata; i++) d->userdata[i] = r.uniform(-1, 1);
      mj_step(m, d);
    }
  });
  if (e) { mj_deleteData(d); return nullptr; }
  return d;
}
static int random_sig(Rng& r) {
  int k = r.below(10);
  if (k < 3) return 1 << r.below(NBITS);
  if (k < 4) return mjSTATE_PHYSICS;
  if (k < 5) return mjSTATE_FULLPHYSICS;
  if (k < 6) return mjSTATE_USER;
  if (k < 7) return mjSTATE_INTEGRATION;
  return (int)(r.next() & ((1u << NBITS) - 1));
}
// state fields selected by sig (names), for "these change, nothing else does"
static std::set<std::string> sig_fields(int sig) {
  std::set<std::string> s;
  for (auto& c : kComp) if (sig & c.bit) s.insert(c.field);
  return s;
}
static bool component_equal(const mjModel* m, const mjData* a, const mjData* b, int sig, std::string* which) {
  if ((sig & mjSTATE_TIME) && memcmp(&a->time, &b->time, sizeof(mjtNum))) { *which = "time"; return false; }
  std::set<std::string> only = sig_fields(sig);
  if (only.empty()) return true;
  mu::Diff df = mu::compare(m, a, b, {}, &only);
  if (df.differs) { *which = df.field; return false; }
  return true;
}
// everything except the components in sig is bit-identical
static bool others_equal(const mjModel* m, const mjData* a, const mjData* b, int sig, std::string* which) {
  std::set<std::string> ex = sig_fields(sig);
  if (sig & mjSTATE_TIME) ex.insert("time");
  ex.insert("contact.H");
  mu::Diff df = mu::compare(m, a, b, ex);
  if (df.differs) { *which = df.field + "[" + std::to_string(df.index) + "] " + df.detail; return false; }
  for (int i = 0; i < mjNTIMER; i++) if (a->timer[i].number != b->timer[i].number) { *which = "timer"; return false; }
  if (memcmp(a->solver_niter, b->solver_niter, sizeof a->solver_niter)) { *which = "solver_niter"; return false; }
  return true;
}

int main(int argc, char** argv) {
  setup(argc, argv, "C26");
  use_caching_alloc();
  Supply sup; sup.init();
  int exhaustive = (int)opt_long("exhaustive", 0);
  for (uint64_t s = g_args.seed0; s < g_args.seed0 + g_args.n; s++) {
    begin_case(s);
    ND_CASE_GUARD();
    Rng r(s);
    mg::GenOpts go; go.flex_chance = 0.08;
    std::string mdesc;
    mjModel* m = sup.get(r, go, &mdesc);
    if (!m) { end_case(); continue; }
    mjData* D = make_used(m, r, s * 7 + 1);
    mjData* E = make_used(m, r, s * 7 + 2);
    if (!D || !E) { if (D) mj_deleteData(D); if (E) mj_deleteData(E); mj_deleteModel(m); count("history_ended_by_mju_error"); end_case(); continue; }
    g_scenario = mdesc;
    uint64_t sig_hash = fnv_str(mdesc);
    int nsig = exhaustive && m->nq < 40 ? (1 << NBITS) : r.range(6, 20);
    std::vector<mjtNum> buf, buf2;
    for (int k = 0; k < nsig; k++) {
      if (g_args.drop.count(k % 32)) continue;
      int sig = exhaustive && m->nq < 40 ? k : random_sig(r);
      if (!sig) continue;
      char sc[32]; snprintf(sc, sizeof sc, " sig=0x%x", sig);
      if (g_scenario.size() < 1200) g_scenario += sc;
      // ---- 1. size == slots written (canaries on both sides of the written range)
      int n = mj_stateSize(m, sig);
      int expect = 0;
      for (int b = 0; b < NBITS; b++) if (sig >> b & 1) expect += mj_stateSize(m, 1 << b);
      if (n != expect) violation("size-mismatch", "mj_stateSize(0x%x)=%d but the components sum to %d", sig, n, expect);
      const mjtNum canary = -7.25e200;
      buf.assign(n + 8, canary);
      mj_getState(m, D, buf.data() + 4, sig);
      for (int i = 0; i < 4; i++) if (buf[i] != canary || buf[n + 4 + i] != canary) violation("overrun", "mj_getState(0x%x) wrote outside its %d slots", sig, n);
      for (int i = 0; i < n; i++) if (buf[4 + i] == canary) violation("short-write", "mj_getState(0x%x) left slot %d of %d unwritten", sig, i, n);
      // ---- 2. set(get) restores exactly these components in another used instance and nothing else
      mjData* E0 = mj_copyData(nullptr, m, E);
      mj_setState(m, E, buf.data() + 4, sig);
      std::string which;
      if (!component_equal(m, D, E, sig, &which)) violation("roundtrip", "after mj_setState(mj_getState(0x%x)) component %s differs from the source", sig, which.c_str());
      if (!others_equal(m, E, E0, sig, &which)) violation("collateral-change", "mj_setState(0x%x) changed %s, which is not in the signature", sig, which.c_str());
      // read back: the vector is reproduced bit for bit
      buf2.assign(n + 1, 0);
      mj_getState(m, E, buf2.data(), sig);
      if (n && memcmp(buf2.data(), buf.data() + 4, n * sizeof(mjtNum))) violation("roundtrip", "mj_getState after mj_setState(0x%x) returns a different vector", sig);
      // ---- 3. extract == get of the sub-signature
      int sub = sig & (int)(r.next() & ((1u << NBITS) - 1));
      if (sub) {
        int ns = mj_stateSize(m, sub);
        std::vector<mjtNum> ex(ns + 2, canary), direct(ns + 1, 0);
        mj_extractState(m, buf.data() + 4, sig, ex.data(), sub);
        mj_getState(m, D, direct.data(), sub);
        if (ex[ns] != canary) violation("overrun", "mj_extractState(0x%x -> 0x%x) wrote outside its %d slots", sig, sub, ns);
        if (ns && memcmp(ex.data(), direct.data(), ns * sizeof(mjtNum))) violation("extract-mismatch", "mj_extractState(0x%x -> 0x%x) differs from mj_getState(0x%x)", sig, sub, sub);
      }
      // ---- 4. copyState == get + set
      mjData* E2 = mj_copyData(nullptr, m, E0);
      mj_copyState(m, D, E2, sig);
      mu::Diff df = mu::compare(m, E, E2, {"contact.H"});
      if (df.differs) violation("copystate-mismatch", "mj_copyState(0x%x) differs from get+set in %s[%ld]", sig, df.field.c_str(), df.index);
      mj_deleteData(E2);
      mj_deleteData(E0);
      count("signatures");
      sig_hash = fnv(&sig, sizeof sig, sig_hash);
    }
    // ---- 5. reset of a used and poisoned instance == fresh instance
    {
      mjData* F = mj_makeData(m);
      mjData* U = make_used(m, r, s * 7 + 3);
      if (U) {
        mu::poison(m, U, s, false);
        mj_resetData(m, U);
        std::set<std::string> ex = scratch_fields(m);
        mu::Diff df = mu::compare(m, U, F, ex);
        if (df.differs) violation("reset-mismatch", "mj_resetData on a used instance differs from a fresh mj_makeData in %s[%ld] (%s)", df.field.c_str(), df.index, df.detail.c_str());
        // (contacts/constraints may exist after a reset: models with sleep-initialised trees run mj_forward inside it - the fresh instance does too)
        if (U->parena != F->parena || U->pstack || U->pbase) violation("reset-mismatch", "mj_resetData left parena=%zu (fresh: %zu) pstack=%zu pbase=%zu", (size_t)U->parena, (size_t)F->parena, (size_t)U->pstack, (size_t)U->pbase);
        for (int i = 0; i < mjNWARNING; i++) if (U->warning[i].number) violation("reset-mismatch", "mj_resetData left warning %d counter at %d", i, U->warning[i].number);
        // the debug reset fills the buffers with a byte first; everything a reset defines must then be defined again exactly as by mj_resetData
        { unsigned char byte = (unsigned char)(1 + r.below(255));
          mj_resetDataDebug(m, U, byte);
          std::vector<mjtNum> su((size_t)mj_stateSize(m, mjSTATE_FULLPHYSICS | mjSTATE_USER)), sf(su.size());
          mj_getState(m, U, su.data(), mjSTATE_FULLPHYSICS | mjSTATE_USER); mj_getState(m, F, sf.data(), mjSTATE_FULLPHYSICS | mjSTATE_USER);
          if (su.size() && memcmp(su.data(), sf.data(), su.size() * sizeof(mjtNum))) { size_t i = 0; while (!memcmp(&su[i], &sf[i], sizeof(mjtNum))) i++;
            violation("reset-mismatch", "mj_resetDataDebug(fill byte 0x%02x) leaves state slot %zu of %zu at %.17g, a fresh instance has %.17g (nhistory=%d)", byte, i, su.size(), su[i], sf[i], (int)m->nhistory); }
          count("debug_resets"); }
        count("reset_checks");
        // ---- 6. keyframe reset == reset + the keyframe's values
        if (m->nkey) {
          int k = r.below(m->nkey);
          mjData* K = make_used(m, r, s * 7 + 4);
          if (K) {
            mj_resetDataKeyframe(m, K, k);
            F->time = m->key_time[k];
            mju_copy(F->qpos, m->key_qpos + k * m->nq, m->nq);
            mju_copy(F->qvel, m->key_qvel + k * m->nv, m->nv);
            mju_copy(F->act, m->key_act + k * m->na, m->na);
            mju_copy(F->ctrl, m->key_ctrl + k * m->nu, m->nu);
            mju_copy(F->mocap_pos, m->key_mpos + k * 3 * m->nmocap, 3 * m->nmocap);
            mju_copy(F->mocap_quat, m->key_mquat + k * 4 * m->nmocap, 4 * m->nmocap);
            mu::Diff d2 = mu::compare(m, K, F, ex);
            if (d2.differs) violation("keyframe-mismatch", "mj_resetDataKeyframe(%d) differs from reset+keyframe values in %s[%ld] (%s)", k, d2.field.c_str(), d2.index, d2.detail.c_str());
            count("keyframe_checks");
            mj_deleteData(K);
          }
        }
        mj_deleteData(U);
      }
      mj_deleteData(F);
    }
    signature(sig_hash);
    sample(g_scenario);
    mj_deleteData(D); mj_deleteData(E);
    mj_deleteModel(m);
    end_case();
  }
  print_summary();
  return 0;
}
