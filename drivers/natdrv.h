// Common scaffolding for E2 (faultsim) and E3 (histsim) native drivers.
// One seed = one exactly repeatable case; failures are written to a fail file and reported as a FAIL line.
#pragma once
#include <fcntl.h>
#include <malloc.h>
#include <setjmp.h>
#include <signal.h>
#include <unistd.h>

#include <cinttypes>
#include <cmath>
#include <cstdarg>
#include <cstdint>
#include <cstdio>
#include <cstdlib>
#include <cstring>
#include <map>
#include <set>
#include <string>
#include <vector>

#include <time.h>
#include <mujoco/mujoco.h>

void nd_tolerated_fwd(const char* cls, const char* msg);
namespace nd {

struct Rng {
  uint64_t s;
  explicit Rng(uint64_t seed) : s(seed * 0xD1342543DE82EF95ULL + 0x9E3779B97F4A7C15ULL) { for (int i = 0; i < 4; i++) next(); }
  uint64_t next() { s ^= s << 13; s ^= s >> 7; s ^= s << 17; return s * 0x2545F4914F6CDD1DULL; }
  int below(int n) { return n <= 1 ? 0 : (int)((next() >> 11) % (uint64_t)n); }
  int range(int lo, int hi) { return lo + below(hi - lo + 1); }
  double unit() { return (double)(next() >> 11) / 9007199254740992.0; }
  double uniform(double lo, double hi) { return lo + (hi - lo) * unit(); }
  bool chance(double p) { return unit() < p; }
};

struct Args {
  uint64_t seed0 = 0, n = 1;
  std::set<int> drop, mdrop;
  std::string faildir = ".";
  bool verbose = false;
  std::map<std::string, std::string> opt;
};
inline Args g_args;
inline std::set<std::string> g_tolerate;
inline const char* g_property = "?";
inline uint64_t g_seed = 0;
inline std::string g_scenario;      // one-line description of the case in progress
inline std::string g_blob;          // bulky context (model XML ...) stored in the fail file
inline bool g_in_case = false;
inline std::map<std::string, uint64_t> g_count;
inline double g_budget_s = 0;
inline double now_s() { timespec ts; clock_gettime(CLOCK_MONOTONIC, &ts); return ts.tv_sec + 1e-9 * ts.tv_nsec; }
inline double g_t0 = now_s();

inline std::set<uint64_t> g_sigs;   // signatures of distinct non-trivial cases
inline std::vector<std::string> g_samples;

inline void parse_set(const char* s, std::set<int>& out) {
  std::string t(s); char* p = t.data();
  while (*p) { out.insert((int)strtol(p, &p, 10)); if (*p == ',') p++; else if (*p) p++; }
}
inline void parse_args(int argc, char** argv) {
  for (int i = 1; i < argc; i++) {
    std::string a = argv[i];
    auto nx = [&]() -> const char* { return i + 1 < argc ? argv[++i] : ""; };
    if (a == "--seed") g_args.seed0 = strtoull(nx(), 0, 10);
    else if (a == "--budget") g_budget_s = atof(nx());
    else if (a == "--n") g_args.n = strtoull(nx(), 0, 10);
    else if (a == "--faildir") g_args.faildir = nx();
    else if (a == "--drop") parse_set(nx(), g_args.drop);
    else if (a == "--mdrop") parse_set(nx(), g_args.mdrop);
    else if (a == "-v") g_args.verbose = true;
    else if (a == "--cfg" || a == "--dec") nx();   // E1-only options, ignored
    else if (a == "--tolerate") { std::string t = nx(); size_t i = 0; while (i < t.size()) { size_t j = t.find(',', i); if (j == std::string::npos) j = t.size(); if (j > i) g_tolerate.insert(t.substr(i, j - i)); i = j + 1; } }
    else if (a.rfind("--", 0) == 0 && i + 1 < argc) g_args.opt[a.substr(2)] = argv[++i];
  }
}
inline long opt_long(const char* k, long d) { auto it = g_args.opt.find(k); return it == g_args.opt.end() ? d : atol(it->second.c_str()); }
inline std::string opt_str(const char* k, const char* d) { auto it = g_args.opt.find(k); return it == g_args.opt.end() ? d : it->second; }

inline void count(const char* k, uint64_t n = 1) { g_count[k] += n; }
inline uint64_t g_tolerated_printed = 0;
inline void signature(uint64_t h) { g_sigs.insert(h); }
inline uint64_t fnv(const void* p, size_t n, uint64_t h = 0xcbf29ce484222325ULL) {
  const unsigned char* c = (const unsigned char*)p;
  for (size_t i = 0; i < n; i++) h = (h ^ c[i]) * 0x100000001b3ULL;
  return h;
}
inline uint64_t fnv_str(const std::string& s, uint64_t h = 0xcbf29ce484222325ULL) { return fnv(s.data(), s.size(), h); }
inline void sample(const std::string& s) { if (g_samples.size() < 3) g_samples.push_back(s.substr(0, 600)); }

// ------------------------------------------------------------------ failure reporting (raw syscalls only)
inline void write_fail_file(const char* cls, const char* msg) {
  static char path[1024], buf[2048];
  snprintf(path, sizeof path, "%s/fail_%s_%" PRIu64 ".txt", g_args.faildir.c_str(), g_property, g_seed);
  int fd = open(path, O_WRONLY | O_CREAT | O_TRUNC, 0644);
  if (fd >= 0) {
    int n = snprintf(buf, sizeof buf, "property=%s\nclass=%s\nmsg=%s\nseed=%" PRIu64 "\ncfg=\nscenario=", g_property, cls, msg, g_seed);
    if (write(fd, buf, n) < 0) {}
    std::string sc = g_scenario; for (auto& c : sc) if (c == '\n') c = ' ';
    if (write(fd, sc.data(), sc.size()) < 0) {}
    if (write(fd, "\ndrop=", 6) < 0) {}
    for (int d : g_args.drop) { n = snprintf(buf, sizeof buf, "%d,", d); if (write(fd, buf, n) < 0) {} }
    if (write(fd, "\nmdrop=", 7) < 0) {}
    for (int d : g_args.mdrop) { n = snprintf(buf, sizeof buf, "%d,", d); if (write(fd, buf, n) < 0) {} }
    if (write(fd, "\ndec=\nlog:\n", 11) < 0) {}
    if (write(fd, g_blob.data(), g_blob.size()) < 0) {}
    close(fd);
  }
  int n = snprintf(buf, sizeof buf, "FAIL seed=%" PRIu64 " class=%s file=%s msg=%s\n", g_seed, cls, path, msg);
  fflush(stdout);
  if (write(1, buf, n) < 0) {}
}
// classes listed with --tolerate (the property's known findings) do not end the shard: the case is abandoned,
// counted, and the run goes on, so a recorded finding does not cost coverage
inline jmp_buf g_case_jmp;
inline bool g_case_jmp_set = false;
#define ND_CASE_GUARD() do { nd::g_case_jmp_set = true; if (setjmp(nd::g_case_jmp)) { nd::g_in_case = false; goto nd_case_abandoned; } } while (0); if (0) { nd_case_abandoned: nd::count("cases"); continue; }
[[noreturn]] inline void violation(const char* cls, const char* fmt, ...) {
  static char b[1500];
  va_list ap; va_start(ap, fmt); vsnprintf(b, sizeof b, fmt, ap); va_end(ap);
  for (char* c = b; *c; c++) if (*c == '\n') *c = ' ';
  bool tolerated = g_tolerate.count(cls) > 0;
  for (auto& t : g_tolerate) if (!t.empty() && t.back() == '*' && !strncmp(cls, t.c_str(), t.size() - 1)) tolerated = true;
  if (g_case_jmp_set && tolerated) {
    ::nd_tolerated_fwd(cls, b);
    longjmp(g_case_jmp, 1);
  }
  write_fail_file(cls, b);
  _exit(10);
}
}  // namespace nd
inline void nd_tolerated_fwd(const char* cls, const char* msg) {
  nd::g_count[std::string("tolerated_") + cls]++;
  if (nd::g_tolerated_printed++ < 3) { printf("TOLERATED seed=%" PRIu64 " class=%s msg=%s\n", nd::g_seed, cls, msg); fflush(stdout); }
}
namespace nd {
// for drivers whose case is a sweep of many faulted executions: a tolerated (known) class is counted and the
// sweep goes on; anything else is a normal violation
inline bool is_tolerated(const char* cls) {
  if (g_tolerate.count(cls)) return true;
  for (auto& t : g_tolerate) if (!t.empty() && t.back() == '*' && !strncmp(cls, t.c_str(), t.size() - 1)) return true;
  return false;
}
inline void violation_or_continue(const char* cls, const char* fmt, ...) {
  static char b[1500];
  va_list ap; va_start(ap, fmt); vsnprintf(b, sizeof b, fmt, ap); va_end(ap);
  for (char* c = b; *c; c++) if (*c == '\n') *c = ' ';
  if (is_tolerated(cls)) { ::nd_tolerated_fwd(cls, b); return; }
  write_fail_file(cls, b);
  _exit(10);
}
inline void on_signal(int sig, siginfo_t*, void*) {
  char b[64]; snprintf(b, sizeof b, "signal %d", sig);
  if (g_in_case) { write_fail_file("crash", b); _exit(10); }
  _exit(128 + sig);
}
inline void install_handlers() {
  static char altstack[1 << 16];
  stack_t ss{}; ss.ss_sp = altstack; ss.ss_size = sizeof altstack; sigaltstack(&ss, nullptr);
  struct sigaction sa{}; sa.sa_sigaction = on_signal; sa.sa_flags = SA_SIGINFO | SA_ONSTACK | SA_NODEFER;
  for (int s : {SIGSEGV, SIGBUS, SIGFPE, SIGILL, SIGABRT}) sigaction(s, &sa, nullptr);
}

// ------------------------------------------------------------------ mju_error / mju_warning capture
inline jmp_buf* g_jmp = nullptr;
inline char g_lasterr[1200];
inline char g_lastwarn[1200];
inline uint64_t g_nwarn = 0;
inline void on_error(const char* msg) {
  snprintf(g_lasterr, sizeof g_lasterr, "%s", msg);
  if (g_jmp) longjmp(*g_jmp, 1);
  violation("unexpected-error", "mju_error outside a guarded call: %s", msg);
}
inline uint64_t g_nunstable = 0;   // "Nan, Inf or huge value in QPOS/QVEL/QACC" warnings: with autoreset on, each one is a reset. (The per-instance
                                   // counters cannot be used to detect a reset: mj_resetData clears them and the warning then re-adds one.)
inline void on_warning(const char* msg) { snprintf(g_lastwarn, sizeof g_lastwarn, "%s", msg); g_nwarn++; if (strstr(msg, "Nan, Inf or huge value")) g_nunstable++; }
inline void install_mj_handlers() { mju_user_error = on_error; mju_user_warning = on_warning; }
// GUARD(stmt): run stmt; evaluates to true if mju_error was raised inside it (MuJoCo's contract: handlers do not return)
#define ND_GUARD(stmt) ([&]() -> bool { jmp_buf jb_; jmp_buf* prev_ = nd::g_jmp; nd::g_jmp = &jb_; bool err_ = false; \
                                        if (setjmp(jb_)) { err_ = true; } else { stmt; } nd::g_jmp = prev_; return err_; }())

// wall-clock budget of a shard (--budget seconds, 0 = none): checked between cases only, so it decides how many seeds a shard gets through,
// never what happens inside a case; a shard that runs out of budget prints its summary for the cases it completed and exits 0
inline void print_summary();
inline void begin_case(uint64_t seed) {
  if (g_budget_s > 0 && now_s() - g_t0 > g_budget_s) { g_count["stopped_by_time_budget"]++; print_summary(); fflush(stdout); exit(0); }
  g_seed = seed; g_scenario.clear(); g_blob.clear(); g_in_case = true; g_lasterr[0] = 0; }
inline void end_case() { g_in_case = false; count("cases"); }

inline void print_summary() {
  printf("SUMMARY {\"runs\":%" PRIu64 ",\"distinct_traces\":%zu", g_count["cases"], g_sigs.size());
  printf(",\"probes\":{");
  int first = 1;
  for (auto& [k, v] : g_count) { printf("%s\"%s\":%" PRIu64, first ? "" : ",", k.c_str(), v); first = 0; }
  printf("}}\n");
  for (auto& s : g_samples) {
    std::string e;
    for (char c : s) { if (c == '"' || c == '\\') { e += '\\'; e += c; } else if ((unsigned char)c < 32) e += ' '; else e += c; }
    printf("SAMPLE {\"case\":\"%s\"}\n", e.c_str());
  }
  auto hf = g_args.opt.find("hashfile");
  if (hf != g_args.opt.end()) {
    FILE* h = fopen((hf->second + std::to_string(g_args.seed0)).c_str(), "wb");
    if (h) { for (uint64_t x : g_sigs) fwrite(&x, 8, 1, h); fclose(h); }
  }
  fflush(stdout);
}
#if defined(__has_feature)
#if __has_feature(address_sanitizer)
extern "C" void __asan_unpoison_memory_region(void const volatile*, size_t);
#define ND_ASAN_UNPOISON(p, n) __asan_unpoison_memory_region((p), (n))
#endif
#endif
#ifndef ND_ASAN_UNPOISON
#define ND_ASAN_UNPOISON(p, n) ((void)0)
#endif
// caching allocator behind mju_user_malloc: blocks are never returned to the C library, so big mjData
// buffers do not churn through mmap/munmap (which serialises concurrent driver processes in this VM)
struct CacheAlloc {
  struct Hdr { size_t sz; Hdr* next; char pad[48]; };
  static inline Hdr* bins[64];
  static int bin(size_t n) { int b = 0; size_t c = 64; while (c < n) { c <<= 1; b++; } return b; }
  // the model compiler calls mju_malloc from its (real) worker threads: the free lists need a lock
  static inline volatile int lock_ = 0;
  static void lock() { while (__sync_lock_test_and_set(&lock_, 1)) { } }   // (__sync: the sim prelude re-binds the __atomic builtins)
  static void unlock() { __sync_lock_release(&lock_); }
  static void* alloc(size_t n) {
    int b = bin(n ? n : 1);
    lock();
    Hdr* h = bins[b];
    if (h) bins[b] = h->next;
    unlock();
    if (!h) { h = (Hdr*)aligned_alloc(64, sizeof(Hdr) + ((size_t)64 << b)); if (!h) return nullptr; }
    ND_ASAN_UNPOISON((char*)h, sizeof(Hdr) + ((size_t)64 << b));   // a recycled block may carry the engine's arena poison
    h->sz = n; h->next = nullptr;
    return (char*)h + sizeof(Hdr);
  }
  static void release(void* p) {
    if (!p) return;
    ND_ASAN_UNPOISON((char*)p - sizeof(Hdr), sizeof(Hdr));
    Hdr* h = (Hdr*)((char*)p - sizeof(Hdr));
    int b = bin(h->sz ? h->sz : 1);
    lock();
    h->next = bins[b]; bins[b] = h;
    unlock();
  }
};
inline void use_caching_alloc() { mju_user_malloc = CacheAlloc::alloc; mju_user_free = CacheAlloc::release; }

}  // namespace nd
extern "C" void __asan_set_error_report_callback(void (*)(const char*)) __attribute__((weak));
namespace nd {
// under ASan every report becomes a FAIL record of the case in progress (class "asan", report text in the file)
inline void on_asan_report(const char* report) {
  if (!g_in_case) return;
  g_blob = std::string(report).substr(0, 5000) + "\n" + g_blob;
  std::string r(report);
  size_t i = r.find("AddressSanitizer: "); std::string kind = i == std::string::npos ? "report" : r.substr(i + 18, r.find(' ', i + 18) - i - 18);
  size_t j = r.find(" in mj"); std::string where = j == std::string::npos ? "" : r.substr(j + 4, r.find(' ', j + 4) - j - 4);
  char msg[300]; snprintf(msg, sizeof msg, "AddressSanitizer %s%s%s (full report in the replay file)", kind.c_str(), where.empty() ? "" : " in ", where.c_str());
  write_fail_file("asan", msg);
  _exit(10);
}
inline void setup(int argc, char** argv, const char* prop) {
  if (__asan_set_error_report_callback) __asan_set_error_report_callback(on_asan_report);
  mallopt(M_ARENA_MAX, 1);
  mallopt(M_MMAP_THRESHOLD, 1 << 30);
  mallopt(M_TRIM_THRESHOLD, 1 << 30);
  g_property = prop;
  parse_args(argc, argv);
  install_handlers();
  install_mj_handlers();
  setvbuf(stdout, 0, _IOLBF, 0);
}
}  // namespace nd
