// smoke test for the model generator: how many generated models compile and step
#include "modelgen.h"
using namespace nd;
int main(int argc, char** argv) {
  setup(argc, argv, "GEN");
  std::map<std::string, int> errs;
  long ok = 0, ncon = 0, nefc = 0, asleep = 0, nq = 0;
  for (uint64_t s = g_args.seed0; s < g_args.seed0 + g_args.n; s++) {
    begin_case(s);
    Rng r(s);
    mg::GenOpts o;
    if (opt_long("cluster", 0)) { o.dense_cluster = true; }
    mg::Model gm = mg::generate(r, o, g_args.mdrop);
    g_blob = gm.xml;
    std::string err;
    mjModel* m = mg::compile(gm.xml, &err);
    if (!m) { errs[err.substr(0, 70)]++; if (g_args.verbose) printf("%s\n%s\n", err.c_str(), gm.xml.c_str()); end_case(); continue; }
    mjData* d = mj_makeData(m);
    bool e = ND_GUARD({ for (int i = 0; i < 200; i++) mj_step(m, d); });
    if (e) errs[std::string("STEP: ") + std::string(g_lasterr).substr(0, 60)]++;
    ok++; ncon += d->ncon; nefc += d->nefc; nq += m->nq;
    if (m->opt.enableflags & mjENBL_SLEEP) for (int i = 0; i < m->ntree; i++) asleep += d->tree_asleep[i] >= 0;
    if (s < g_args.seed0 + 2) printf("%s\n", gm.summary.c_str());
    mj_deleteData(d); mj_deleteModel(m);
    end_case();
  }
  printf("ok=%ld/%lu avg ncon=%.1f nefc=%.1f nq=%.1f asleep_trees=%ld\n", ok, (unsigned long)g_args.n, (double)ncon / ok, (double)nefc / ok, (double)nq / ok, asleep);
  for (auto& [k, v] : errs) printf("%5d %s\n", v, k.c_str());
  return 0;
}
