// C01: simulation is a deterministic function of the integration state.
// History machine: carrier A runs a seeded op sequence; at seeded points a twin B is manufactured by
// one route (full copy into a new / a used instance; state-only transfer into a fresh, a reset, or a
// used-and-poisoned instance; replay of A's whole call log); then both receive the same calls and
// every output must be bit-identical.
#include "hist.h"

using namespace nd;
using namespace hs;

enum Route { R_COPY_NEW, R_COPY_USED, R_STATE_FRESH, R_STATE_USED_POISONED, R_STATE_RESET, R_REPLAY, R_NROUTES };
static const char* kRoute[] = {"copyData->new", "copyData->used", "copyState->fresh", "get/setState->used+poisoned", "copyState->reset", "replay-call-log"};

static mjData* make_used(const mjModel* m, Rng& r, int steps) {
  // an instance with an unrelated history: different configuration, contacts, controls
  mjData* u = mu::make_data(m, r.next());
  for (int i = 0; i < m->nq; i++) u->qpos[i] += r.uniform(-0.02, 0.02);
  for (int i = 0; i < m->nv; i++) u->qvel[i] = r.uniform(-0.5, 0.5);
  mj_normalizeQuat(m, u->qpos);
  for (int i = 0; i < m->nu; i++) u->ctrl[i] = r.uniform(-1, 1);
  bool e = ND_GUARD({ for (int k = 0; k < steps; k++) mj_step(m, u); });
  if (e) {   // mju_error is fatal for an instance (its stack is left in use): take a fresh one instead
    nd::count("used_instance_discarded_after_mju_error");
    mj_deleteData(u);
    u = mu::make_data(m, r.next());
  }
  return u;
}

int main(int argc, char** argv) {
  setup(argc, argv, "C01");
  use_caching_alloc();
  Supply sup; sup.init(); sup.allow_flex = true; sup.vary_options = true;
  for (uint64_t s = g_args.seed0; s < g_args.seed0 + g_args.n; s++) {
    begin_case(s);
    ND_CASE_GUARD();
    Rng r(s);
    mg::GenOpts go; go.flex_chance = 0.12;
    std::string mdesc;
    mjModel* m = sup.get(r, go, &mdesc);
    if (!m) { end_case(); continue; }
    bool sleep = (m->opt.enableflags & mjENBL_SLEEP) != 0;
    bool rk4 = m->opt.integrator == mjINT_RK4;
    // a user-sized, tight arena (what <size memory="..."/> sets) in some cases: contacts, constraint rows and island arrays then compete with
    // the stack for room, warnings and dropped rows become part of the trajectory, and anything that makes their allocation depend on what an
    // instance did earlier (high-water marks, leftovers) shows as a difference between the twins
    bool tight = false;
    if (r.chance(0.12)) {
      mjData* t = mj_makeData(m);
      Rng rt(s ^ 0x7157A4E4ULL);
      bool e = ND_GUARD({ for (int k = 0; k < 15; k++) { for (int i = 0; i < m->nu; i++) t->ctrl[i] = rt.uniform(-1, 1); mj_step(m, t); } });
      size_t need = (size_t)t->maxuse_arena;
      mj_deleteData(t);
      if (!e && need > 0) {
        mjtSize narena0 = m->narena;
        m->narena = (mjtSize)((((size_t)(need * rt.uniform(0.9, 1.5))) + 63) & ~(size_t)63);
        // the instance must at least be constructible (mj_makeData runs the position-dependent initialisation on the stack)
        mjData* probe = nullptr;
        bool e2 = ND_GUARD({ probe = mj_makeData(m); });
        if (e2 || !probe) { m->narena = narena0; count("tight_arena_too_small_for_makeData"); }
        else { mj_deleteData(probe); tight = true; count("tight_arena_models"); mdesc += "[tight arena]"; }
      }
    }
    // ---- scenario: op list with twin points
    int nops = r.range(6, 40);
    struct Item { bool twin; int route; Op op; };
    std::vector<Item> items;
    for (int i = 0; i < nops; i++) {
      Item it{};
      int k = r.below(100);
      if (k < 14 && i > 1) { it.twin = true; it.route = r.below(R_NROUTES); }
      else {
        int kind = k < 30 ? O_CTRL : k < 38 ? O_QFRC : k < 44 ? O_XFRC : k < 48 ? O_MOCAP : k < 52 ? O_EQ : k < 78 ? O_STEP : k < 88 ? O_FORWARD : k < 93 ? O_INVERSE : k < 95 ? O_RESET : k < 97 ? O_RESETKEY : O_CLEARFRC;
        it.op = gen_input_op(r, m, kind);
      }
      if (!g_args.drop.count(i)) items.push_back(it);
    }
    g_scenario = mdesc + " ops:";
    for (auto& it : items) g_scenario += " " + (it.twin ? std::string("TWIN[") + kRoute[it.route] + "]" : it.op.str());
    if (g_scenario.size() > 1400) g_scenario.resize(1400);
    // ---- run
    mjData* A = mu::make_data(m, s * 3 + 1);
    mjData* B = nullptr;
    int route = -1;
    bool full_copy = false, inverse_called = false;
    std::vector<Op> log;     // A's call log since creation (for the replay route)
    int ncompared = 0;
    uint64_t sig = fnv_str(mdesc);
    for (auto& it : items) {
      if (it.twin) {
        int rt = it.route;
        if (sleep && (rt == R_STATE_FRESH || rt == R_STATE_USED_POISONED || rt == R_STATE_RESET)) rt = r.chance(0.5) ? R_COPY_USED : R_REPLAY;  // documented: sleep state is not in the state vector
        if (B) { mj_deleteData(B); B = nullptr; }
        switch (rt) {
          case R_COPY_NEW: B = mj_copyData(nullptr, m, A); full_copy = true; break;
          case R_COPY_USED: { mjData* u = make_used(m, r, r.range(2, 9)); B = mj_copyData(u, m, A); if (B != u) violation("copy-api", "mj_copyData(dest,...) did not return dest"); full_copy = true; break; }
          case R_STATE_FRESH: B = mu::make_data(m, s * 3 + 2); mj_copyState(m, A, B, mjSTATE_INTEGRATION); full_copy = false; break;
          case R_STATE_USED_POISONED: {
            B = make_used(m, r, r.range(2, 9));
            mu::poison(m, B, s, false);
            std::vector<mjtNum> st = mu::get_state(m, A, mjSTATE_INTEGRATION);
            mj_setState(m, B, st.data(), mjSTATE_INTEGRATION);
            full_copy = false; count("poisoned_receivers");
            break;
          }
          case R_STATE_RESET: B = make_used(m, r, r.range(2, 6)); mj_resetData(m, B); mj_copyState(m, A, B, mjSTATE_INTEGRATION); full_copy = false; break;
          case R_REPLAY: {
            B = mu::make_data(m, s * 3 + 2);
            for (auto& o : log) apply(m, B, o);
            full_copy = true;
            break;
          }
        }
        route = rt;
        if (!full_copy) inverse_called = false;
        count((std::string("route_") + kRoute[rt]).c_str());
        sig = fnv(&rt, sizeof rt, sig);
        continue;
      }
      // ordinary op on A (and on B)
      if (rk4 && sleep) { /* documented unsupported */ }
      StackGuard ga(A);
      bool ea = apply(m, A, it.op);
      log.push_back(it.op);
      if (it.op.kind == O_RESET || it.op.kind == O_RESETKEY) inverse_called = false;
      if (it.op.kind == O_INVERSE) inverse_called = true;
      if (!ea && is_compute(it.op.kind) && !ga.ok()) violation("stack-not-restored", "%s returned with pstack/pbase %zu/%zu, entered with %zu/%zu", it.op.str().c_str(), (size_t)A->pstack, (size_t)A->pbase, ga.ps, ga.pb);
      if (ea) { count("mju_error_in_op"); if (g_args.verbose) printf("mju_error in %s: %s\n", it.op.str().c_str(), g_lasterr); }
      bool eb = B ? apply(m, B, it.op) : ea;
      if (B && ea != eb) violation("state-dependence", "route %s: %s raised an error on one instance only (%s)", kRoute[route], it.op.str().c_str(), g_lasterr);
      if (ea) break;     // mju_error is fatal for the instance (MuJoCo's contract): the history ends here
      if (!B) continue;
      if (!is_compute(it.op.kind)) continue;
      // compare
      mu::Diff df;
      if (full_copy) {
        std::set<std::string> ex = scratch_fields(m);
        // efc_b is an input of the forward solvers only: mj_inverse re-allocates the constraint arrays and does not write it, so after
        // mj_inverse it holds whatever the arena held (visible when the forward and inverse passes lay the arena out differently)
        if (it.op.kind == O_INVERSE) ex.insert("efc_b");
        df = mu::compare(m, A, B, ex);
      }
      else {
        std::set<std::string> ex = conditional_fields(m, inverse_called, it.op.kind == O_STEP);
        if (it.op.kind == O_INVERSE) ex.insert("efc_b");
        df = mu::compare(m, A, B, ex);
      }
      ncompared++;
      count("comparisons");
      sig = fnv(&it.op.kind, sizeof(int), sig);
      if (df.differs && opt_long("calibrate", 0)) {
        std::set<std::string> ex2 = full_copy ? scratch_fields(m) : conditional_fields(m, inverse_called, it.op.kind == O_STEP);
        while (df.differs) { printf("CALIB route=%s op=%s field=%s sparse=%d solver=%d cone=%d island=%d noslip=%d\n", kRoute[route], it.op.str().c_str(), df.field.c_str(), mj_isSparse(m), m->opt.solver, m->opt.cone, !(m->opt.disableflags & mjDSBL_ISLAND), m->opt.noslip_iterations); ex2.insert(df.field); df = mu::compare(m, A, B, ex2); }
        mj_deleteData(B); B = nullptr; continue;
      }
      if (df.differs)
        violation("state-dependence", "route %s: after %s the two instances differ in %s[%ld] (%s); sleep=%d ncon=%d nefc=%d", kRoute[route], it.op.str().c_str(), df.field.c_str(), df.index,
                  df.detail.c_str(), (int)sleep, A->ncon, A->nefc);
      if (A->ncon) count("comparisons_with_contacts");
    }
    if (ncompared) { signature(sig); sample(g_scenario); }
    if (B) mj_deleteData(B);
    mj_deleteData(A);
    mj_deleteModel(m);
    end_case();
  }
  print_summary();
  return 0;
}
