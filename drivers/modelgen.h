// Seeded MJCF generator shared by the E2/E3 drivers (and C02).  Produces small but feature-rich models:
// forests of bodies with free/ball/hinge/slide joints, primitive geoms on a floor, contact pairs/excludes,
// equality constraints, fixed and spatial tendons, actuators with and without activation state, sensors,
// a mocap body, keyframes, and a seeded option block.  Optional elements carry an index; an index in
// `mdrop` removes the element (model-level minimisation).
#pragma once
#include <set>
#include <string>
#include <vector>

#include "natdrv.h"

namespace mg {
using nd::Rng;

struct GenOpts {
  int min_trees = 2, max_trees = 6;
  int max_depth = 3;
  bool allow_sleep = true;       // may enable the sleep flag
  bool force_sleep = false;
  bool allow_rk4 = true;
  bool contacts = true;          // floor + colliding geoms
  double spread = 0.6;           // horizontal spacing of tree roots
  bool dense_cluster = false;    // many single-geom free bodies within a few cm (broad-phase pair list stress)
  int cluster_n = 0;
  bool cluster_convex = false;   // clusters also contain ellipsoids and cylinders (pairs that go through the convex GJK/EPA path)
  double cluster_z = 0.3;        // height of the cluster above the floor (0.04: every body already touches the floor: one island per group)
  int cluster_group = 0;         // >0: the cluster is split into groups of this many bodies, one metre apart (one constraint island each)
  bool explicit_pairs = false;   // many <pair> elements
  bool mocap = true, keyframes = true, tendons = true, equalities = true, actuators = true, sensors = true;
  const char* memory = "2M";
  int force_integrator = -1;     // 0 Euler 1 RK4 2 implicit 3 implicitfast
  bool energy_flag = true;
  double sleep_tolerance = 0;    // >0: override (large values make trees fall asleep within tens of steps)
  double extra_damping = 0;      // added joint damping so that scenes settle quickly
  bool autoreset_off = false;
  bool history = true;           // some sensors / actuators get nsample / interval / delay attributes (history buffers)
  double flex_chance = 0.0;      // probability of a small flexcomp cloth (drivers that can afford flex models set it)
};

struct Model {
  std::string xml;
  int nu = 0;                     // number of control inputs (differs from nact when an actuator takes several)
  int nbody = 0, njoint = 0, ngeom = 0, nact = 0, nsensor = 0, ntendon = 0, neq = 0, nkey = 0, nmocap = 0, npair = 0;
  int integrator = 0, solver = 0, cone = 0;
  bool sleep = false, island = true;
  std::string summary;
};

struct Gen {
  Rng& r;
  const GenOpts& o;
  const std::set<int>& mdrop;
  int elem = 0;      // running index of optional elements
  std::string body_xml, eq_xml, tendon_xml, act_xml, sensor_xml, contact_xml, key_ctrl;
  std::vector<std::string> bodies, hinges, slides, alljoints1d, sites, geoms, freebodies, balls;
  Model m;
  bool f_materials = false;   // materials (one of them fully transparent) and per-geom colours
  bool f_adhesion = false, f_surfacevel = false, f_gravcomp = false;   // per-model features behind the mjModel.flg_* switches
  Gen(Rng& rr, const GenOpts& oo, const std::set<int>& md) : r(rr), o(oo), mdrop(md) {}
  bool keep() { return !mdrop.count(elem++); }
  static std::string f(double v) { char b[40]; snprintf(b, sizeof b, "%.4g", v); return b; }
  std::string vec3(double a, double b, double c) { return f(a) + " " + f(b) + " " + f(c); }

  std::string geom(const std::string& name, double scale) {
    int t = r.below(5);
    std::string g = "<geom name=\"" + name + "\" ";
    double s = scale * r.uniform(0.6, 1.2);
    switch (t) {
      case 0: g += "type=\"sphere\" size=\"" + f(s) + "\""; break;
      case 1: g += "type=\"capsule\" size=\"" + f(s * 0.6) + " " + f(s) + "\""; break;
      case 2: g += "type=\"box\" size=\"" + vec3(s, s * 0.8, s * 0.6) + "\""; break;
      case 3: g += "type=\"ellipsoid\" size=\"" + vec3(s, s * 0.7, s * 0.5) + "\""; break;
      default: g += "type=\"cylinder\" size=\"" + f(s * 0.7) + " " + f(s * 0.8) + "\""; break;
    }
    if (r.chance(0.2)) g += " friction=\"" + f(r.uniform(0.2, 1.5)) + " 0.005 0.0001\"";
    if (r.chance(0.15)) g += " condim=\"" + std::to_string(r.chance(0.5) ? 1 : (r.chance(0.5) ? 4 : 6)) + "\"";
    if (r.chance(0.1)) { int gr = r.range(1, 3); if (r.chance(0.3)) { static const int odd[] = {-3, -1, 4, 5, 6, 9}; gr = odd[gr % 3 + 3 * (int)r.chance(0.5)]; } g += " group=\"" + std::to_string(gr) + "\""; }   // mostly 1-3, sometimes negative or beyond mjNGROUP
    if (f_materials && r.chance(0.35)) g += std::string(" material=\"") + (r.chance(0.4) ? "mGhost" : "mSolid") + "\"";
    if (f_materials && r.chance(0.3)) g += " rgba=\"" + f(r.uniform(0, 1)) + " " + f(r.uniform(0, 1)) + " 0.3 " + (r.chance(0.25) ? std::string("0") : f(r.uniform(0.3, 1))) + "\"";
    if (f_adhesion && r.chance(0.4)) g += " adhesion=\"" + f(r.uniform(0.2, 3)) + "\"" + (r.chance(0.3) ? " margin=\"0.01\" gap=\"0.01\"" : "");
    if (f_surfacevel && r.chance(0.4)) g += " surfacevel=\"" + vec3(r.uniform(-0.3, 0.3), r.uniform(-0.3, 0.3), 0) + " " + vec3(0, 0, r.uniform(-1, 1)) + "\"";
    if (!o.contacts) g += " contype=\"0\" conaffinity=\"0\"";
    g += " density=\"" + f(r.uniform(300, 1500)) + "\"/>";
    geoms.push_back(name);
    m.ngeom++;
    return g;
  }

  void body(std::string& out, const std::string& name, int depth, bool root, double x, double y, double z) {
    out += "<body name=\"" + name + "\" pos=\"" + vec3(x, y, z) + "\"" + (f_gravcomp && r.chance(0.5) ? " gravcomp=\"" + f(r.uniform(0.2, 1.2)) + "\"" : "") + ">";
    bodies.push_back(name);
    m.nbody++;
    // joint
    int jt = root ? r.below(10) : 3 + r.below(7);
    std::string jn = "j_" + name;
    if (root && jt < 5) { out += "<freejoint name=\"" + jn + "\"/>"; freebodies.push_back(name); m.njoint++; }
    else if (jt < 6) { out += "<joint name=\"" + jn + "\" type=\"ball\" damping=\"" + f(r.uniform(0.01, 0.3)) + "\"/>"; m.njoint++; balls.push_back(jn); }
    else if (jt < 9) {
      out += "<joint name=\"" + jn + "\" type=\"hinge\" axis=\"" + (r.chance(0.5) ? "0 1 0" : "1 0 0") + "\" damping=\"" + f(r.uniform(0.01, 0.5)) + "\"";
      if (r.chance(0.4)) out += " limited=\"true\" range=\"" + f(-r.uniform(0.3, 1.5)) + " " + f(r.uniform(0.3, 1.5)) + "\"";
      if (r.chance(0.2)) out += " stiffness=\"" + f(r.uniform(1, 20)) + "\"";
      if (r.chance(0.15)) out += " frictionloss=\"" + f(r.uniform(0.01, 0.2)) + "\"";
      if (r.chance(0.15)) out += " armature=\"" + f(r.uniform(0.001, 0.05)) + "\"";
      out += "/>";
      hinges.push_back(jn); alljoints1d.push_back(jn); m.njoint++;
    } else {
      out += "<joint name=\"" + jn + "\" type=\"slide\" axis=\"0 0 1\" damping=\"" + f(r.uniform(0.1, 1.0)) + "\"";
      if (r.chance(0.5)) out += " limited=\"true\" range=\"" + f(-r.uniform(0.05, 0.3)) + " " + f(r.uniform(0.05, 0.3)) + "\"";
      out += "/>";
      slides.push_back(jn); alljoints1d.push_back(jn); m.njoint++;
    }
    out += geom("g_" + name, 0.07);
    if (r.chance(0.25) && keep()) out += geom("g2_" + name, 0.05).insert(5, " pos=\"0.05 0 0.05\"");
    if (r.chance(0.6)) { std::string sn = "s_" + name; out += "<site name=\"" + sn + "\" pos=\"0 0 0.02\" size=\"0.01\"/>"; sites.push_back(sn); }
    int nchild = depth < o.max_depth ? r.below(depth == 0 ? 3 : 2) : 0;
    for (int c = 0; c < nchild; c++) {
      if (!keep()) continue;
      body(out, name + "_" + std::to_string(c), depth + 1, false, r.uniform(-0.05, 0.05) + 0.12 * (c ? 1 : -1) * (depth % 2 ? 1 : 0), 0.12 * (c ? 1 : -1) * (depth % 2 ? 0 : 1), -0.16);
    }
    out += "</body>";
  }

  Model build() {
    // ---------------- option
    static const char* integ[] = {"Euler", "RK4", "implicit", "implicitfast"};
    static const char* solv[] = {"PGS", "CG", "Newton"};
    static const char* cone[] = {"pyramidal", "elliptic"};
    static const char* jac[] = {"dense", "sparse", "auto"};
    m.sleep = o.force_sleep || (o.allow_sleep && r.chance(0.25));
    m.integrator = o.force_integrator >= 0 ? o.force_integrator : r.below(4);
    if (m.integrator == 1 && (!o.allow_rk4 || m.sleep)) m.integrator = 0;
    m.solver = r.below(3);
    m.cone = r.below(2);
    m.island = !r.chance(0.3);
    std::string opt = "<option timestep=\"" + std::string(r.chance(0.5) ? "0.002" : "0.004") + "\" integrator=\"" + integ[m.integrator] + "\" solver=\"" + solv[m.solver] +
                      "\" cone=\"" + cone[m.cone] + "\" jacobian=\"" + jac[r.below(3)] + "\" iterations=\"" + std::to_string(r.range(5, 40)) + "\"";
    if (r.chance(0.2)) opt += " noslip_iterations=\"" + std::to_string(r.range(1, 4)) + "\"";
    if (r.chance(0.15)) opt += " wind=\"0.5 0 0\" density=\"1.2\" viscosity=\"0.00002\"";
    if (m.sleep) opt += " sleep_tolerance=\"" + f(o.sleep_tolerance > 0 ? o.sleep_tolerance : (r.chance(0.5) ? 1e-2 : 1e-3)) + "\"";
    opt += "><flag";
    if (!m.island) opt += " island=\"disable\"";
    if (m.sleep) opt += " sleep=\"enable\"";
    if (r.chance(0.2)) opt += " warmstart=\"disable\"";
    if (r.chance(0.15)) opt += " multiccd=\"" + std::string(r.chance(0.5) ? "enable" : "disable") + "\"";
    if (o.energy_flag && r.chance(0.4)) opt += " energy=\"enable\"";
    if (r.chance(0.1)) opt += " midphase=\"disable\"";
    if (r.chance(0.1)) opt += " eulerdamp=\"disable\"";
    if (r.chance(0.1)) opt += " filterparent=\"disable\"";
    if (r.chance(0.1)) opt += " refsafe=\"disable\"";
    if (o.autoreset_off) opt += " autoreset=\"disable\"";
    opt += "/></option>";

    // ---------------- bodies
    f_adhesion = r.chance(0.12); f_surfacevel = r.chance(0.1); f_gravcomp = r.chance(0.12); f_materials = r.chance(0.2);
    std::string wb = "<worldbody>";
    if (o.contacts) wb += "<geom name=\"floor\" type=\"plane\" size=\"5 5 0.1\"/>";
    wb += "<site name=\"s_world\" pos=\"0 0 1\" size=\"0.01\"/>";
    sites.push_back("s_world");
    if (o.dense_cluster) {
      int n = o.cluster_n > 0 ? o.cluster_n : r.range(8, 28);
      for (int i = 0; i < n; i++) {
        if (!keep()) continue;
        std::string nm = "c" + std::to_string(i);
        wb += "<body name=\"" + nm + "\" pos=\"" + vec3(0.02 * (i % 4) + (o.cluster_group > 0 ? 1.0 * (i / o.cluster_group) : 0.0), 0.02 * ((i / 4) % 4), o.cluster_z + (o.cluster_group == 1 ? 0.0 : 0.015 * (i / 16))) + "\"><freejoint/><geom name=\"g_" + nm + "\" type=\"" +
              (o.cluster_convex && i % 5 == 3 ? "ellipsoid\" size=\"0.05 0.04 0.03" : o.cluster_convex && i % 5 == 4 ? "cylinder\" size=\"0.04 0.04"
               : i % 3 == 0 ? "sphere\" size=\"0.05" : i % 3 == 1 ? "box\" size=\"0.04 0.04 0.04" : "capsule\" size=\"0.03 0.05") + "\"/></body>";
        bodies.push_back(nm); freebodies.push_back(nm); geoms.push_back("g_" + nm); m.nbody++; m.ngeom++; m.njoint++;
      }
    } else {
      int ntree = r.range(o.min_trees, o.max_trees);
      for (int t = 0; t < ntree; t++) {
        if (!keep()) continue;
        std::string b;
        body(b, "b" + std::to_string(t), 0, true, o.spread * (t % 3) + r.uniform(-0.05, 0.05), o.spread * (t / 3) + r.uniform(-0.05, 0.05), r.uniform(0.12, 0.6));
        wb += b;
      }
    }
    if (o.flex_chance > 0 && r.chance(o.flex_chance) && keep()) {
      // a small cloth: 2-D grid with edge equalities or elasticity, pinned at one corner through a connect on its first vertex body
      int nx = r.range(2, 4), ny = r.range(2, 4);
      bool elastic = r.chance(0.5);
      wb += "<body name=\"clothroot\" pos=\"" + vec3(-0.8, -0.8, 0.5) + "\"><flexcomp type=\"grid\" count=\"" + std::to_string(nx) + " " + std::to_string(ny) + " 1\" spacing=\"0.06 0.06 0.06\" mass=\"0.2\" name=\"cloth\" radius=\"0.01\" dim=\"2\">" +
            (elastic ? "<edge equality=\"false\"/><elasticity young=\"" + f(r.uniform(5e3, 5e4)) + "\" poisson=\"0.2\" thickness=\"0.005\" damping=\"1e-4\"" + (r.chance(0.5) ? " elastic2d=\"bend\"" : "") + "/>"
                     : "<edge equality=\"true\" damping=\"0.01\"/>") +
            "</flexcomp></body>";
      m.nbody += nx * ny;
    }
    if (o.mocap && r.chance(0.4) && keep()) {
      wb += "<body name=\"mocap0\" mocap=\"true\" pos=\"0.3 0.3 0.8\"><geom name=\"g_mocap0\" type=\"sphere\" size=\"0.05\"" + std::string(r.chance(0.5) ? " contype=\"0\" conaffinity=\"0\"" : "") + "/><site name=\"s_mocap\" size=\"0.01\"/></body>";
      sites.push_back("s_mocap"); m.nmocap = 1; m.ngeom++;
    }
    wb += "</worldbody>";

    // ---------------- contact pairs / excludes
    std::string contact;
    if (o.contacts && geoms.size() >= 2) {
      int np = o.explicit_pairs ? r.range(10, 40) : (r.chance(0.3) ? r.range(1, 3) : 0);
      std::set<std::pair<int, int>> used;
      for (int i = 0; i < np; i++) {
        int a = r.below((int)geoms.size()), b = r.below((int)geoms.size());
        if (a == b || used.count({a, b}) || used.count({b, a}) || !keep()) continue;
        used.insert({a, b});
        contact += "<pair geom1=\"" + geoms[a] + "\" geom2=\"" + geoms[b] + "\"" + (r.chance(0.3) ? " condim=\"1\"" : "") + (o.explicit_pairs ? " margin=\"0.5\"" : "") + "/>";
        m.npair++;
      }
      if (bodies.size() >= 2 && r.chance(0.3) && keep()) {
        int a = r.below((int)bodies.size()), b = r.below((int)bodies.size());
        if (a != b) contact += "<exclude body1=\"" + bodies[a] + "\" body2=\"" + bodies[b] + "\"/>";
      }
    }
    // ---------------- equality
    std::string eq;
    if (o.equalities && !o.dense_cluster) {
      if (bodies.size() >= 2 && r.chance(0.35) && keep()) {
        int a = r.below((int)bodies.size()), b = r.below((int)bodies.size());
        if (a != b) { eq += "<connect name=\"eq_c\" body1=\"" + bodies[a] + "\" body2=\"" + bodies[b] + "\" anchor=\"0 0 0.05\"" + (r.chance(0.3) ? " active=\"false\"" : "") + "/>"; m.neq++; }
      }
      if (bodies.size() >= 2 && r.chance(0.2) && keep()) {
        int a = r.below((int)bodies.size());
        eq += "<weld name=\"eq_w\" body1=\"" + bodies[a] + "\"" + (r.chance(0.5) ? " active=\"false\"" : "") + "/>"; m.neq++;
      }
      if (alljoints1d.size() >= 2 && r.chance(0.3) && keep()) {
        eq += "<joint name=\"eq_j\" joint1=\"" + alljoints1d[0] + "\" joint2=\"" + alljoints1d[1] + "\" polycoef=\"0 1 0 0 0\"/>"; m.neq++;
      }
    }
    // ---------------- tendons
    std::string ten;
    std::vector<std::string> tendons;
    if (o.tendons && !o.dense_cluster) {
      if (alljoints1d.size() >= 2 && r.chance(0.4) && keep()) {
        ten += "<fixed name=\"t_fixed\"" + std::string(r.chance(0.5) ? std::string(" limited=\"true\" range=\"-0.5 0.5\"") + (r.chance(0.4) ? " margin=\"" + f(r.uniform(0.02, 0.2)) + "\"" : "") : "") + (r.chance(0.3) ? " stiffness=\"5\"" : "") + "><joint joint=\"" + alljoints1d[0] +
               "\" coef=\"1\"/><joint joint=\"" + alljoints1d[alljoints1d.size() - 1] + "\" coef=\"-0.5\"/></fixed>";
        tendons.push_back("t_fixed"); m.ntendon++;
      }
      if (sites.size() >= 3 && r.chance(0.4) && keep()) {
        ten += "<spatial name=\"t_spatial\"" + std::string(r.chance(0.5) ? std::string(" limited=\"true\" range=\"0 ") + (r.chance(0.5) ? "1.2" : f(r.uniform(0.4, 0.9))) + "\"" + (r.chance(0.5) ? " margin=\"" + f(r.uniform(0.02, 0.2)) + "\"" : "") : "") + (r.chance(0.4) ? " stiffness=\"10\" damping=\"0.5\"" : "") + "><site site=\"" + sites[1] +
               "\"/><site site=\"" + sites[2] + "\"/>" + (sites.size() > 3 && r.chance(0.5) ? "<site site=\"" + sites[3] + "\"/>" : "") + "</spatial>";
        tendons.push_back("t_spatial"); m.ntendon++;
      }
    }
    // ---------------- actuators
    std::string act;
    if (o.actuators) {
      for (size_t i = 0; i < alljoints1d.size() && m.nact < 6; i++) {
        if (!r.chance(0.5) || !keep()) continue;
        std::string an = "a" + std::to_string(m.nact);
        int k = r.below(5);
        if (k == 0) act += "<motor name=\"" + an + "\" joint=\"" + alljoints1d[i] + "\" gear=\"" + f(r.uniform(0.5, 3)) + "\"" + (r.chance(0.5) ? " ctrllimited=\"true\" ctrlrange=\"-1 1\"" : "") +
                           (o.history && r.chance(0.2) ? " delay=\"" + f(r.uniform(0.004, 0.02)) + "\" nsample=\"" + std::to_string(r.range(3, 7)) + "\"" : "") + "/>";
        else if (k == 1) act += "<position name=\"" + an + "\" joint=\"" + alljoints1d[i] + "\" kp=\"" + f(r.uniform(1, 20)) + "\"/>";
        else if (k == 2) act += "<velocity name=\"" + an + "\" joint=\"" + alljoints1d[i] + "\" kv=\"" + f(r.uniform(0.1, 2)) + "\"/>";
        else if (k == 3) act += "<general name=\"" + an + "\" joint=\"" + alljoints1d[i] + "\" dyntype=\"integrator\" gainprm=\"1\" actlimited=\"true\" actrange=\"-1 1\"" +
                                (o.history && r.chance(0.25) ? " delay=\"" + f(r.uniform(0.004, 0.02)) + "\" nsample=\"" + std::to_string(r.range(3, 7)) + "\"" : "") + "/>";
        else if (r.chance(0.75)) act += "<general name=\"" + an + "\" joint=\"" + alljoints1d[i] + "\" dyntype=\"filter\" dynprm=\"0.1\" gainprm=\"2\"" +
                                (o.history && r.chance(0.3) ? " delay=\"" + f(r.uniform(0.004, 0.02)) + "\" nsample=\"" + std::to_string(r.range(3, 7)) + "\"" + (r.chance(0.4) ? " interp=\"linear\"" : "") : "") + "/>";
        else { act += "<dcmotor name=\"" + an + "\" joint=\"" + alljoints1d[i] + "\" motorconst=\"1.0\" resistance=\"1.0\" input=\"pos vel\" controller=\"" + f(r.uniform(0, 10)) + " 0 " + f(r.uniform(0, 5)) + "\"/>"; m.nu++; }   // two control inputs
        m.nact++; m.nu++;
      }
      if (!tendons.empty() && r.chance(0.4) && keep()) { act += "<motor name=\"a_t\" tendon=\"" + tendons[0] + "\" gear=\"1\"/>"; m.nact++; m.nu++; }
      // integrated-velocity servo on a ball joint: a periodic transmission (the stored activation is kept within half a turn of the joint angle)
      if (!balls.empty() && r.chance(0.3) && keep()) { act += "<intvelocity name=\"a_ball\" joint=\"" + balls[r.below((int)balls.size())] + "\" kp=\"" + f(r.uniform(1, 6)) + "\" actrange=\"-40 40\" gear=\"0 0 1\"/>"; m.nact++; m.nu++; }
      // actuators whose transmission target sits on a body without degrees of freedom (world site with a moving reference site; adhesion on the world's geoms)
      if (sites.size() > 1 && r.chance(0.12) && keep()) { act += "<general name=\"a_ref\" site=\"s_world\" refsite=\"" + sites[1] + "\" gear=\"0 0 1 0 0 0\" gainprm=\"2\"/>"; m.nact++; m.nu++; }
      if (o.contacts && r.chance(0.1) && keep()) { act += "<adhesion name=\"a_adh\" body=\"world\" ctrlrange=\"0 1\" gain=\"3\"/>"; m.nact++; m.nu++; }
      if (!freebodies.empty() && sites.size() > 1 && r.chance(0.2) && keep()) { act += "<motor name=\"a_s\" site=\"" + sites[1] + "\" gear=\"0 0 1 0 0 0\"/>"; m.nact++; m.nu++; }
    }
    // ---------------- sensors
    std::string sen;
    if (o.sensors) {
      for (size_t i = 0; i < alljoints1d.size() && i < 3; i++) if (r.chance(0.5) && keep()) {
        // optional history buffer: sampled on an interval, delayed, or plain buffered
        std::string h;
        if (o.history && r.chance(0.35)) {
          int k = r.below(3);
          h = k == 0 ? " interval=\"" + f(r.uniform(0.005, 0.03)) + "\" nsample=\"" + std::to_string(r.range(2, 5)) + "\""
            : k == 1 ? " delay=\"" + f(r.uniform(0.004, 0.03)) + "\" nsample=\"" + std::to_string(r.range(3, 8)) + "\"" + (r.chance(0.5) ? " interp=\"linear\"" : "")
                     : " nsample=\"" + std::to_string(r.range(2, 6)) + "\"";
        }
        sen += "<jointpos joint=\"" + alljoints1d[i] + "\"" + h + "/><jointvel joint=\"" + alljoints1d[i] + "\"/>"; m.nsensor += 2;
      }
      for (size_t i = 1; i < sites.size() && i < 4; i++) {
        if (!r.chance(0.5) || !keep()) continue;
        int k = r.below(6);
        sen += k == 0 ? "<accelerometer site=\"" + sites[i] + "\"/>" : k == 1 ? "<gyro site=\"" + sites[i] + "\"/>" : k == 2 ? "<touch site=\"" + sites[i] + "\"/>"
             : k == 3 ? "<framepos objtype=\"site\" objname=\"" + sites[i] + "\"/>" : k == 4 ? "<velocimeter site=\"" + sites[i] + "\"/>" : "<force site=\"" + sites[i] + "\"/>";
        m.nsensor++;
      }
      if (!bodies.empty() && r.chance(0.4) && keep()) { sen += "<subtreelinvel body=\"" + bodies[0] + "\"/><subtreecom body=\"" + bodies[0] + "\"/>"; m.nsensor += 2; }
      if (act.find("name=\"a0\"") != std::string::npos && r.chance(0.5) && keep()) { sen += "<actuatorfrc actuator=\"a0\"/>"; m.nsensor++; }
      if (!tendons.empty() && r.chance(0.5) && keep()) { sen += "<tendonpos tendon=\"" + tendons[0] + "\"/>"; m.nsensor++; }
      if (r.chance(0.2) && keep()) { sen += "<clock/>"; m.nsensor++; }
    }
    // ---------------- assemble (keyframes need sizes, so they only set time and let the rest default)
    std::string x = "<mujoco model=\"gen\"><compiler angle=\"radian\" usethread=\"false\"/>" + opt + "<size memory=\"" + o.memory + "\"/>" +
                    (f_materials ? "<asset><material name=\"mSolid\" rgba=\"0.8 0.3 0.2 1\"/><material name=\"mGhost\" rgba=\"0.2 0.3 0.8 0\"/></asset>" : "") + wb;
    if (!contact.empty()) x += "<contact>" + contact + "</contact>";
    if (!eq.empty()) x += "<equality>" + eq + "</equality>";
    if (!ten.empty()) x += "<tendon>" + ten + "</tendon>";
    if (!act.empty()) x += "<actuator>" + act + "</actuator>";
    if (!sen.empty()) x += "<sensor>" + sen + "</sensor>";
    if (o.keyframes && r.chance(0.5) && keep()) {
      x += "<keyframe><key name=\"k0\" time=\"0.5\"/>";
      if (r.chance(0.5) && m.nu) {
        for (int kk = 1; kk <= (r.chance(0.5) ? 2 : 1); kk++) {
          std::string c; for (int i = 0; i < m.nu; i++) c += (i ? " " : "") + f(r.uniform(-0.5, 0.5));
          x += "<key name=\"k" + std::to_string(kk) + "\" time=\"" + f(1.25 * kk) + "\" ctrl=\"" + c + "\"/>"; m.nkey++;
        }
      }
      x += "</keyframe>";
      m.nkey++;
    }
    x += "</mujoco>";
    m.xml = x;
    char b[256];
    snprintf(b, sizeof b, "gen(nbody=%d njnt=%d ngeom=%d nact=%d nsens=%d nten=%d neq=%d nkey=%d mocap=%d pairs=%d integ=%s solver=%s cone=%s island=%d sleep=%d)", m.nbody, m.njoint, m.ngeom,
             m.nact, m.nsensor, m.ntendon, m.neq, m.nkey, m.nmocap, m.npair, integ[m.integrator], solv[m.solver], cone[m.cone], (int)m.island, (int)m.sleep);
    m.summary = b;
    if (f_adhesion || f_surfacevel || f_gravcomp) { m.summary.pop_back(); m.summary += std::string(f_adhesion ? " adhesion" : "") + (f_surfacevel ? " surfacevel" : "") + (f_gravcomp ? " gravcomp" : "") + ")"; }
    if (f_materials) { m.summary.pop_back(); m.summary += " materials)"; }
    return m;
  }
};

inline Model generate(Rng& r, const GenOpts& o, const std::set<int>& mdrop) {
  Gen g(r, o, mdrop);
  return g.build();
}

// compile XML text to a model; returns nullptr (and the message) if the model does not compile
inline mjModel* compile(const std::string& xml, std::string* err) {
  char e[1000] = "";
  mjModel* m = nullptr;
  mjSpec* s = nullptr;
  bool raised = ND_GUARD({ s = mj_parseXMLString(xml.c_str(), nullptr, e, sizeof e); if (s) m = mj_compile(s, nullptr); });
  if (raised) { if (err) *err = nd::g_lasterr; if (s) mj_deleteSpec(s); return nullptr; }
  if (!m && err) *err = s ? mjs_getError(s) : e;
  if (s) mj_deleteSpec(s);
  return m;
}

// corpus: list of XML files that load under the stub build (one path per line), passed with --corpus
inline std::vector<std::string> load_corpus() {
  std::vector<std::string> v;
  std::string p = nd::opt_str("corpus", "");
  if (p.empty()) return v;
  FILE* f = fopen(p.c_str(), "r");
  if (!f) return v;
  char line[2048];
  while (fgets(line, sizeof line, f)) { std::string s(line); while (!s.empty() && (s.back() == '\n' || s.back() == ' ')) s.pop_back(); if (!s.empty()) v.push_back(s); }
  fclose(f);
  return v;
}
inline mjModel* load_file(const std::string& path, std::string* err) {
  char e[1000] = "";
  mjModel* m = nullptr;
  bool raised = ND_GUARD({ m = mj_loadXML(path.c_str(), nullptr, e, sizeof e); });
  if (raised) { if (err) *err = nd::g_lasterr; return nullptr; }
  if (!m && err) *err = e;
  return m;
}
}  // namespace mg
