#include <mujoco/mujoco.h>
#include <stdio.h>
#include <stdlib.h>
#include <string.h>
#include <setjmp.h>
static jmp_buf jb; static char lasterr[1024];
static void onerr(const char* msg){ strncpy(lasterr,msg,1023); longjmp(jb,1); }
static void onwarn(const char* msg){ }
int main(int argc,char**argv){
  mju_user_error=onerr; mju_user_warning=onwarn;
  int ok=0,fail=0,rt=0,rtbad=0;
  for(int i=1;i<argc;i++){
    char err[1000]="";
    if(setjmp(jb)){ printf("ERR  %s: %s\n",argv[i],lasterr); fail++; continue; }
    mjModel* m=mj_loadXML(argv[i],NULL,err,1000);
    if(!m){ printf("FAIL %s: %.150s\n",argv[i],err); fail++; continue; }
    mjData* d=mj_makeData(m); for(int k=0;k<10;k++) mj_step(m,d);
    // writer round trip
    mjSpec* s=mj_parseXML(argv[i],NULL,err,1000); int rtok=-1;
    if(s){ mjModel* m1=mj_compile(s,NULL); static char buf[4000000]; if(m1 && mj_saveXMLString(s,buf,sizeof buf,err,1000)==0){ mjSpec* s2=mj_parseXMLString(buf,NULL,err,1000); if(s2){ mjModel* m2=mj_compile(s2,NULL); rtok = m2 && m2->nq==m->nq && m2->nbody==m->nbody && m2->ngeom==m->ngeom; if(m2) mj_deleteModel(m2); mj_deleteSpec(s2);} else rtok=0; } if(m1) mj_deleteModel(m1); mj_deleteSpec(s);} 
    if(rtok==1) rt++; else rtbad++;
    printf("OK   %s nq=%d nbody=%d ngeom=%d ncon=%d t=%.3f rt=%d\n",argv[i],(int)m->nq,(int)m->nbody,(int)m->ngeom,d->ncon,d->time,rtok);
    ok++; mj_deleteData(d); mj_deleteModel(m);
  }
  printf("ok=%d fail=%d writer_roundtrip_ok=%d bad=%d\n",ok,fail,rt,rtbad);
  return 0;
}
