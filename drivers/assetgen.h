// Seeded generator of specs with several inline / builtin meshes, builtin textures and muscle actuators (shared by C33 and the
// threaded-compile scenario of C21).  `collide`: mesh geoms take part in collision, so that the compiler needs their convex hulls.
#pragma once
#include <set>
#include <string>
#include <vector>
#include "natdrv.h"
namespace ag {
using nd::Rng;
static std::string f(double v) { char b[40]; snprintf(b, sizeof b, "%.5g", v); return b; }

struct Shape { const char* verts; const char* faces; int nv; };
static const Shape kShapes[] = {
    {"0 0 0  1 0 0  0 1 0  0 0 1", "0 2 1  0 1 3  0 3 2  1 2 3", 4},
    {"-1 -1 0  1 -1 0  1 1 0  -1 1 0  0 0 1.5", "0 2 1  0 3 2  0 1 4  1 2 4  2 3 4  3 0 4", 5},
    {"-1 -1 -1  1 -1 -1  1 1 -1  -1 1 -1  -1 -1 1  1 -1 1  1 1 1  -1 1 1", "0 2 1  0 3 2  4 5 6  4 6 7  0 1 5  0 5 4  1 2 6  1 6 5  2 3 7  2 7 6  3 0 4  3 4 7", 8},
    {"1 0 0  -1 0 0  0 1 0  0 -1 0  0 0 1  0 0 -1", "0 2 4  2 1 4  1 3 4  3 0 4  2 0 5  1 2 5  3 1 5  0 3 5", 6},
};

// ---- kinematic structure around the assets: frames (nested, every way of writing an orientation), static bodies (what
// fusestatic fuses), default classes, cameras and lights.  Everything here is resolved by the compiler into positions and
// quaternions of the elements' parents, so a compile that is not repeatable on the same spec shows in the model bytes.
static std::string orient(Rng& q) {
  switch (q.below(7)) {
    case 0: return "";
    case 1: return " euler=\"" + f(q.uniform(-1.5, 1.5)) + " " + f(q.uniform(-1.5, 1.5)) + " " + f(q.uniform(-1.5, 1.5)) + "\"";
    case 2: return " axisangle=\"" + f(q.uniform(-1, 1)) + " " + f(q.uniform(-1, 1)) + " " + f(q.uniform(0.2, 1)) + " " + f(q.uniform(-3, 3)) + "\"";
    case 3: return " xyaxes=\"1 " + f(q.uniform(-0.5, 0.5)) + " " + f(q.uniform(-0.5, 0.5)) + " " + f(q.uniform(-0.5, 0.5)) + " 1 " + f(q.uniform(-0.5, 0.5)) + "\"";
    case 4: return " zaxis=\"" + f(q.uniform(-1, 1)) + " " + f(q.uniform(-1, 1)) + " " + f(q.uniform(0.2, 1)) + "\"";
    case 5: return " quat=\"" + f(q.uniform(0.2, 1)) + " " + f(q.uniform(-1, 1)) + " " + f(q.uniform(-1, 1)) + " " + f(q.uniform(-1, 1)) + "\"";
    default: return " euler=\"0 0 " + f(q.uniform(-3, 3)) + "\"";
  }
}
static std::string pos3(Rng& q, double s) { return f(q.uniform(-s, s)) + " " + f(q.uniform(-s, s)) + " " + f(q.uniform(-s, s)); }
static std::string small_geom(Rng& q, int& id, bool cls) {
  std::string g = "<geom name=\"xg" + std::to_string(id++) + "\" contype=\"0\" conaffinity=\"0\"";
  if (cls && q.chance(0.4)) g += " class=\"cB\"";
  int t = q.below(4);
  if (t == 0) g += " type=\"sphere\" size=\"" + f(q.uniform(0.02, 0.06)) + "\" pos=\"" + pos3(q, 0.2) + "\"";
  else if (t == 1) g += " type=\"box\" size=\"" + f(q.uniform(0.02, 0.06)) + " 0.03 0.02\" pos=\"" + pos3(q, 0.2) + "\"" + orient(q);
  else if (t == 2) g += " type=\"capsule\" size=\"" + f(q.uniform(0.01, 0.03)) + "\" fromto=\"" + pos3(q, 0.2) + " " + f(q.uniform(0.25, 0.4)) + " 0 0.1\"";
  else g += " type=\"ellipsoid\" size=\"0.03 0.02 " + f(q.uniform(0.01, 0.04)) + "\" pos=\"" + pos3(q, 0.2) + "\"" + orient(q);
  return g + "/>";
}
static void gen_frame(Rng& q, std::string& out, int depth, int& id, bool cls);
static void gen_static_body(Rng& q, std::string& out, int depth, int& id, bool cls) {
  out += "<body name=\"xb" + std::to_string(id++) + "\" pos=\"" + pos3(q, 0.3) + "\"" + orient(q) + (cls && q.chance(0.3) ? " childclass=\"cA\"" : "") + ">";
  if (q.chance(0.2)) out += "<inertial pos=\"" + pos3(q, 0.05) + "\" mass=\"" + f(q.uniform(0.1, 1)) + "\" diaginertia=\"0.01 0.02 0.015\"/>";
  out += small_geom(q, id, cls);
  if (q.chance(0.3)) out += "<site name=\"xs" + std::to_string(id++) + "\" pos=\"" + pos3(q, 0.1) + "\"" + orient(q) + "/>";
  if (q.chance(0.2)) out += "<light name=\"xl" + std::to_string(id++) + "\" pos=\"" + pos3(q, 0.5) + "\" dir=\"" + f(q.uniform(-1, 1)) + " " + f(q.uniform(-1, 1)) + " -1\"/>";
  if (q.chance(0.2)) out += "<camera name=\"xc" + std::to_string(id++) + "\" pos=\"" + pos3(q, 0.5) + "\"" + orient(q) + "/>";
  if (depth < 2 && q.chance(0.4)) gen_static_body(q, out, depth + 1, id, cls);
  if (depth < 2 && q.chance(0.3)) gen_frame(q, out, depth + 1, id, cls);
  out += "</body>";
}
static void gen_frame(Rng& q, std::string& out, int depth, int& id, bool cls) {
  out += "<frame" + (q.chance(0.5) ? " name=\"xf" + std::to_string(id++) + "\"" : std::string()) + " pos=\"" + pos3(q, 0.3) + "\"" + orient(q) + (cls && q.chance(0.3) ? " childclass=\"cA\"" : "") + ">";
  int n = q.range(1, 3);
  for (int k = 0; k < n; k++) {
    switch (q.below(7)) {
      case 0: case 1: out += small_geom(q, id, cls); break;
      case 2: out += "<site name=\"xs" + std::to_string(id++) + "\" pos=\"" + pos3(q, 0.1) + "\"" + orient(q) + "/>"; break;
      case 3: gen_static_body(q, out, depth + 1, id, cls); break;
      case 4: out += "<camera name=\"xc" + std::to_string(id++) + "\" pos=\"" + pos3(q, 0.5) + "\"" + orient(q) + "/>"; break;
      case 5: out += "<light name=\"xl" + std::to_string(id++) + "\" pos=\"" + pos3(q, 0.5) + "\" dir=\"" + f(q.uniform(-1, 1)) + " " + f(q.uniform(-1, 1)) + " -1\"/>"; break;
      default: if (depth < 2) gen_frame(q, out, depth + 1, id, cls); else out += small_geom(q, id, cls); break;
    }
  }
  out += "</frame>";
}

// `files` (optional): some inline meshes become binary MSH files of a virtual file system (name -> bytes).  Two mesh elements may name the
// same file with different scale / smoothnormal / inertia / refpos, so the compiler's global asset cache (keyed by file name) is in play.
typedef std::vector<std::pair<std::string, std::string>> Files;
static std::string gen_xml(Rng& r, int* nmesh_out, int* ntex_out, int* nmuscle_out, const std::set<int>& mdrop, bool collide = false, bool* fuse_out = nullptr,
                           int* nstruct_out = nullptr, Files* files = nullptr) {
  int elem = 0;
  auto keep = [&]() { return !mdrop.count(elem++); };
  std::string asset, geoms, x;
  int nmesh = 0, ntex = 0;
  int want_mesh = r.range(2, 8), want_tex = r.range(1, 6);
  for (int i = 0; i < want_mesh; i++) {
    if (!keep()) { for (int k = 0; k < 40; k++) r.next(); continue; }
    Rng q(r.next());
    for (int k = 0; k < 39; k++) r.next();
    std::string nm = "mesh" + std::to_string(i);
    std::string a = "<mesh name=\"" + nm + "\" ";
    int kind = q.below(10);
    if (kind < 5) {
      const Shape& sh = kShapes[q.below(4)];
      // jitter vertices a little (orientation of the faces is preserved)
      std::string v; const char* p = sh.verts;
      std::vector<float> fv;
      for (int k = 0; k < 3 * sh.nv; k++) { double val = strtod(p, (char**)&p); double jv = val + q.uniform(-0.08, 0.08); v += f(jv) + " "; fv.push_back((float)jv); }
      bool asfile = files && q.chance(0.45);
      if (asfile && !files->empty() && q.chance(0.35)) {
        a += "file=\"" + (*files)[q.below((int)files->size())].first + "\"";   // a second mesh element on an existing file
      } else if (asfile) {
        std::vector<int> fi; const char* pf = sh.faces; while (*pf) { char* e; long x = strtol(pf, &e, 10); if (e == pf) break; fi.push_back((int)x); pf = e; }
        int hdr[4] = {sh.nv, 0, 0, (int)fi.size() / 3};
        std::string bytes((const char*)hdr, sizeof hdr);
        bytes.append((const char*)fv.data(), fv.size() * sizeof(float));
        bytes.append((const char*)fi.data(), fi.size() * sizeof(int));
        std::string fn = "m" + std::to_string(files->size()) + ".msh";
        files->push_back({fn, bytes});
        a += "file=\"" + fn + "\"";
      } else
      a += "vertex=\"" + v + "\" face=\"" + sh.faces + "\"";
      if (q.chance(0.5)) a += " scale=\"" + f(q.uniform(0.05, 0.3)) + " " + f(q.uniform(0.05, 0.3)) + " " + f(q.uniform(0.05, 0.3)) + "\"";
      if (q.chance(0.3)) a += " inertia=\"" + std::string(q.chance(0.5) ? "shell" : "exact") + "\"";
      if (q.chance(0.3)) a += " smoothnormal=\"true\"";
      if (q.chance(0.2)) a += " refpos=\"0.1 0 0.05\" refquat=\"0.7071 0.7071 0 0\"";
    } else {
      int b = q.below(7);
      switch (b) {
        case 0: a += "builtin=\"sphere\" params=\"" + std::to_string(q.range(0, 3)) + "\""; break;
        case 1: a += "builtin=\"hemisphere\" params=\"" + std::to_string(q.range(1, 3)) + "\""; break;
        case 2: a += "builtin=\"cone\" params=\"" + std::to_string(q.range(3, 24)) + " " + f(q.uniform(0.1, 1.0)) + "\""; break;
        case 3: a += "builtin=\"supersphere\" params=\"" + std::to_string(q.range(4, 14)) + " " + f(q.uniform(0.3, 1.5)) + " " + f(q.uniform(0.3, 1.5)) + "\""; break;
        case 4: a += "builtin=\"supertorus\" params=\"" + std::to_string(q.range(4, 14)) + " " + f(q.uniform(0.1, 0.4)) + " " + f(q.uniform(0.5, 1.5)) + " " + f(q.uniform(0.5, 1.5)) + "\""; break;
        case 5: a += "builtin=\"wedge\" params=\"" + std::to_string(q.range(2, 12)) + " " + std::to_string(q.range(2, 12)) + " " + f(q.uniform(20, 60)) + " " + f(q.uniform(20, 60)) + " " + f(q.uniform(0, 0.5)) + "\""; break;
        default: a += "builtin=\"plate\" params=\"" + std::to_string(q.range(2, 24)) + " " + std::to_string(q.range(2, 24)) + "\""; break;
      }
      a += " scale=\"" + f(q.uniform(0.05, 0.2)) + " " + f(q.uniform(0.05, 0.2)) + " " + f(q.uniform(0.05, 0.2)) + "\"";
    }
    a += "/>";
    asset += a;
    nmesh++;
    geoms += "<geom name=\"g_" + nm + "\" type=\"mesh\" mesh=\"" + nm + "\"" + (collide ? "" : " contype=\"0\" conaffinity=\"0\"") + " pos=\"" + f(0.2 * i) + " 0 0\"/>";
  }
  std::vector<std::string> tex2d;
  for (int i = 0; i < want_tex; i++) {
    if (!keep()) { for (int k = 0; k < 20; k++) r.next(); continue; }
    Rng q(r.next());
    for (int k = 0; k < 19; k++) r.next();
    std::string nm = "tex" + std::to_string(i);
    static const char* types[] = {"2d", "cube", "skybox"};
    static const char* built[] = {"checker", "gradient", "flat"};
    int ty = q.below(3);
    int w = 4 * q.range(1, 16), h = ty == 0 ? 4 * q.range(1, 16) : w;
    if (ty != 0 && q.chance(0.3)) h = 6 * w;
    std::string a = "<texture name=\"" + nm + "\" type=\"" + types[ty] + "\" builtin=\"" + built[q.below(3)] + "\" width=\"" + std::to_string(w) + "\" height=\"" + std::to_string(h) +
                    "\" rgb1=\"" + f(q.unit()) + " " + f(q.unit()) + " " + f(q.unit()) + "\" rgb2=\"" + f(q.unit()) + " " + f(q.unit()) + " " + f(q.unit()) + "\"";
    int mk = q.below(4);
    if (mk == 1) a += " mark=\"edge\" markrgb=\"1 1 1\"";
    else if (mk == 2) a += " mark=\"cross\" markrgb=\"0 0 0\"";
    else if (mk == 3) a += " mark=\"random\" random=\"" + f(q.uniform(0.01, 0.3)) + "\" markrgb=\"1 0 1\"";
    a += "/>";
    asset += a;
    if (ty == 0) tex2d.push_back(nm);
    ntex++;
  }
  for (size_t i = 0; i < tex2d.size(); i++) asset += "<material name=\"mat" + std::to_string(i) + "\" texture=\"" + tex2d[i] + "\" texrepeat=\"2 2\"/>";
  // articulated part with muscles (so that the length-range pool runs)
  int nlink = r.range(1, 4);
  int nmuscle = 0;
  std::string bodies, tendons, acts;
  std::string close;
  for (int i = 0; i < nlink; i++) {
    bodies += "<body name=\"l" + std::to_string(i) + "\" pos=\"" + (i ? "0 0 -0.3" : "0 0 1") + "\"><joint name=\"j" + std::to_string(i) + "\" type=\"hinge\" axis=\"0 1 0\" range=\"-1 1\" limited=\"true\" damping=\"0.1\"/>"
              "<geom name=\"lg" + std::to_string(i) + "\" type=\"capsule\" size=\"0.03\" fromto=\"0 0 0 0 0 -0.3\"/><site name=\"s" + std::to_string(i) + "\" pos=\"0.05 0 -0.15\"/>";
    close += "</body>";
  }
  bodies += close;
  int want_muscle = r.range(0, 5);
  for (int i = 0; i < want_muscle; i++) {
    if (!keep()) { r.next(); r.next(); continue; }
    int j = r.below(nlink); bool viat = r.chance(0.4) && nlink >= 2;
    if (viat) {
      int a = r.below(nlink), b = (a + 1 + r.below(nlink - 1)) % nlink;
      tendons += "<spatial name=\"t" + std::to_string(i) + "\"><site site=\"s" + std::to_string(a) + "\"/><site site=\"s" + std::to_string(b) + "\"/></spatial>";
      acts += "<muscle name=\"m" + std::to_string(i) + "\" tendon=\"t" + std::to_string(i) + "\"/>";
    } else { r.next(); acts += "<muscle name=\"m" + std::to_string(i) + "\" joint=\"j" + std::to_string(j) + "\"/>"; }
    nmuscle++;
  }
  // structure (own generator, seeded from the case's stream after everything else so that the asset part of a case is unchanged)
  Rng qs(r.next());
  bool fuse = qs.chance(0.15), cls = qs.chance(0.5);
  std::string xworld, xmesh, dflt;
  int xid = 0, nstruct = 0;
  for (int i = 0, n = qs.below(4); i < n; i++) { if (!keep()) { Rng skip(qs.next()); continue; } Rng q(qs.next()); gen_frame(q, xworld, 0, xid, cls); nstruct++; }
  for (int i = 0, n = qs.below(3); i < n; i++) { if (!keep()) { Rng skip(qs.next()); continue; } Rng q(qs.next()); gen_static_body(q, xworld, 0, xid, cls); nstruct++; }
  for (int i = 0, n = qs.below(3); i < n; i++) { if (!keep()) { Rng skip(qs.next()); continue; } Rng q(qs.next()); if (q.chance(0.5)) gen_frame(q, xmesh, 1, xid, cls); else gen_static_body(q, xmesh, 1, xid, cls); nstruct++; }
  if (qs.chance(0.3)) xworld += "<camera name=\"xtrack\" pos=\"0 -2 1\" mode=\"targetbody\" target=\"l0\"/>";
  if (cls) dflt = "<default><default class=\"cA\"><geom rgba=\"0.2 0.6 0.3 1\" friction=\"0.7 0.01 0.001\"/><site size=\"0.02\" rgba=\"1 0 0 1\"/><default class=\"cB\"><geom density=\"700\" solref=\"0.01 0.8\"/></default></default></default>";
  if (fuse_out) *fuse_out = fuse;
  if (nstruct_out) *nstruct_out = nstruct;
  x = "<mujoco model=\"c33\"><compiler angle=\"radian\"" + std::string(fuse ? " fusestatic=\"true\"" : "") + "><lengthrange inttotal=\"0.6\" interval=\"0.2\" timestep=\"0.02\" tolrange=\"100\"/></compiler><option timestep=\"0.005\"/>";
  x += dflt + "<asset>" + asset + "</asset><worldbody><site name=\"sw\" pos=\"0.2 0 1.2\"/><body name=\"meshes\" pos=\"0 1 0.5\"><freejoint/>" + geoms + "<geom size=\"0.05\"/>" + xmesh + "</body>" + bodies + xworld + "</worldbody>";
  // explicit contact pairs and excludes: every mesh geom of the "meshes" body against every link geom, i.e. many pairs with the same
  // (body, body) signature - ties for whatever order the compiler gives them - and more than 16 of them in the larger cases
  { Rng qp(r.next());
    if (qp.chance(0.3) && nmesh * nlink >= 2) {
      std::string pairs;
      for (int i = 0; i < want_mesh; i++) for (int j = 0; j < nlink; j++) if (geoms.find("g_mesh" + std::to_string(i) + "\"") != std::string::npos && qp.chance(0.9))
        pairs += "<pair name=\"p" + std::to_string(i) + "_" + std::to_string(j) + "\" geom1=\"g_mesh" + std::to_string(i) + "\" geom2=\"lg" + std::to_string(j) + "\" margin=\"" + f(qp.uniform(0, 0.02)) + "\"/>";
      if (qp.chance(0.5)) for (int j = 1; j < nlink; j++) pairs += "<exclude body1=\"meshes\" body2=\"l" + std::to_string(j) + "\"/>";
      x += "<contact>" + pairs + "</contact>";
    } }
  if (!tendons.empty()) x += "<tendon>" + tendons + "</tendon>";
  if (!acts.empty()) x += "<actuator>" + acts + "</actuator>";
  x += "</mujoco>";
  *nmesh_out = nmesh; *ntex_out = ntex; *nmuscle_out = nmuscle;
  return x;
}

}  // namespace ag
