// C30: numerical blow-ups are contained.
// Fault injection into a running simulation: NaN / Inf / huge / borderline values written into one element
// of qpos, qvel, act, ctrl, qfrc_applied, xfrc_applied or mocap_pos at seeded instants of a seeded history.
#include "hist.h"

using namespace nd;
using namespace hs;

static bool is_bad(mjtNum x) { return x != x || x > mjMAXVAL || x < -mjMAXVAL; }   // the documented predicate, re-stated here
enum Loc { L_QPOS, L_QVEL, L_ACT, L_CTRL, L_QFRC, L_XFRC, L_MOCAP, L_N };
static const char* kLoc[] = {"qpos", "qvel", "act", "ctrl", "qfrc_applied", "xfrc_applied", "mocap_pos"};

int main(int argc, char** argv) {
  setup(argc, argv, "C30");
  use_caching_alloc();
  Supply sup; sup.init();
  const double vals[] = {NAN, INFINITY, -INFINITY, 1.0001e10, -1.0001e10, 1e300, -1e300, 9.9e9, -0.0, 4.9e-324, 1e150};
  const int NV = sizeof vals / sizeof vals[0];
  for (uint64_t s = g_args.seed0; s < g_args.seed0 + g_args.n; s++) {
    begin_case(s);
    ND_CASE_GUARD();
    Rng r(s);
    mg::GenOpts go; go.flex_chance = 0.08;
    go.autoreset_off = r.chance(0.25);
    std::string mdesc;
    mjModel* m = sup.get(r, go, &mdesc);
    if (!m) { end_case(); continue; }
    bool autoreset = !(m->opt.disableflags & mjDSBL_AUTORESET);
    bool sleep = (m->opt.enableflags & mjENBL_SLEEP) != 0;
    int nsteps = r.range(10, 60);
    int nfault = r.range(1, 3);
    struct F { int at, loc, vi, idx; };
    std::vector<F> faults;
    for (int i = 0; i < nfault; i++) { F f{r.below(nsteps), r.below(L_N), r.below(NV), (int)(r.next() & 0x7fffffff)}; if (!g_args.drop.count(i)) faults.push_back(f); }
    g_scenario = mdesc + (autoreset ? " autoreset=on" : " autoreset=off") + " steps=" + std::to_string(nsteps) + " faults:";
    for (auto& f : faults) { char b[64]; snprintf(b, sizeof b, " %s[%d]=%g@%d", kLoc[f.loc], f.idx % 1000, vals[f.vi], f.at); g_scenario += b; }
    mjData* d = mu::make_data(m, s + 3);
    mjData* ref = mj_makeData(m);   // reference for "reset to the initial state, then this step"
    uint64_t sig = fnv_str(mdesc);
    bool dead = false;
    int fired = 0, resets = 0;
    std::string last_fault = "none";   // location=kind of the most recent injected fault (part of the finding key)
    for (int k = 0; k < nsteps && !dead; k++) {
      for (int i = 0; i < m->nu; i++) d->ctrl[i] = r.uniform(-1, 1);
      for (auto& f : faults) {
        if (f.at != k) continue;
        mjtNum* tgt[] = {d->qpos, d->qvel, d->act, d->ctrl, d->qfrc_applied, d->xfrc_applied, d->mocap_pos};
        int nn[] = {(int)m->nq, (int)m->nv, (int)m->na, (int)m->nu, (int)m->nv, (int)(6 * m->nbody), (int)(3 * m->nmocap)};
        if (nn[f.loc] > 0) {
          int idx = f.loc == L_XFRC && m->nbody > 1 ? 6 + f.idx % (6 * (m->nbody - 1)) : f.idx % nn[f.loc];
          tgt[f.loc][idx] = vals[f.vi];
          fired++; count((std::string("fault_") + kLoc[f.loc]).c_str());
          mjtNum fv = vals[f.vi];
          last_fault = std::string(kLoc[f.loc]) + "=" + (fv != fv ? "nan" : std::isinf(fv) ? "inf" : std::fabs(fv) > 1e10 ? "huge" : std::fabs(fv) > 1e9 ? "large" : "small");
          sig = fnv(&f.loc, sizeof(int), fnv(&f.vi, sizeof(int), sig));
        }
      }
      // what enters the checks
      bool bad_qpos = false, bad_qvel = false;
      for (int i = 0; i < m->nq; i++) bad_qpos |= is_bad(d->qpos[i]);
      for (int j = 0; j < m->nv; j++) bad_qvel |= is_bad(d->qvel[j]);   // all dofs: a written velocity wakes a sleeping tree within the step
      int w0[mjNWARNING];
      for (int i = 0; i < mjNWARNING; i++) w0[i] = d->warning[i].number;
      // what the acceleration check will see: forward dynamics of the entering state, computed on a copy
      bool bad_qacc = false, acc_known = false;
      if (!bad_qpos && !bad_qvel) {
        mj_copyData(ref, m, d);
        bool ef = ND_GUARD({ mj_forward(m, ref); });
        if (!ef) { acc_known = true; for (int j = 0; j < m->nv; j++) bad_qacc |= is_bad(ref->qacc[j]); }
      }
      mjtNum t0 = d->time;
      StackGuard sg(d);
      if (!autoreset && (bad_qpos || bad_qvel)) {
        // With autoreset disabled the engine promises only the warning: exercise the public checks directly and end
        // the history (running the whole pipeline on a NaN state is outside the statement; observed to segfault in
        // mj_Jdotv on the unchanged tree, recorded in DESIGN.md as an observation, not asserted).
        dead = ND_GUARD({ mj_checkPos(m, d); mj_checkVel(m, d); });
        if (!dead) {
          if (bad_qpos && d->warning[mjWARN_BADQPOS].number <= w0[mjWARN_BADQPOS]) violation("missing-warning", "step %d: bad qpos but mj_checkPos left the BADQPOS counter at %d", k, d->warning[mjWARN_BADQPOS].number);
          if (bad_qvel && d->warning[mjWARN_BADQVEL].number <= w0[mjWARN_BADQVEL]) violation("missing-warning", "step %d: bad qvel but mj_checkVel left the BADQVEL counter at %d", k, d->warning[mjWARN_BADQVEL].number);
          count("autoreset_off_warning_checks");
        }
        break;
      }
      if (!autoreset && (bad_qacc || !acc_known)) {
        // same for a bad acceleration: exercise the public check on the forward result and end the history
        dead = ND_GUARD({ mj_forward(m, d); mj_checkAcc(m, d); });
        if (!dead && acc_known && d->warning[mjWARN_BADQACC].number <= w0[mjWARN_BADQACC]) violation("missing-warning", "step %d: bad qacc but mj_checkAcc left the BADQACC counter at %d", k, d->warning[mjWARN_BADQACC].number);
        count("autoreset_off_warning_checks");
        break;
      }
      dead = ND_GUARD({ mj_step(m, d); });
      if (dead) { count("histories_ended_by_mju_error"); break; }
      if (!sg.ok()) violation("stack-not-restored", "mj_step returned with pstack/pbase %zu/%zu", (size_t)d->pstack, (size_t)d->pbase);
      count("steps");
      bool wq = d->warning[mjWARN_BADQPOS].number > (autoreset ? 0 : w0[mjWARN_BADQPOS]);
      bool wv = d->warning[mjWARN_BADQVEL].number > (autoreset ? 0 : w0[mjWARN_BADQVEL]);
      // a reset clears every counter before it re-adds its own: when the state that the position / velocity reset installs has a bad
      // acceleration itself (an unstable model), the acceleration check resets once more in the same step and only BADQACC survives
      if (autoreset && d->warning[mjWARN_BADQACC].number > 0) { if (bad_qpos && !wq) { wq = true; count("position_reset_followed_by_acceleration_reset"); } if (bad_qvel && !wv) { wv = true; count("velocity_reset_followed_by_acceleration_reset"); } }
      if (autoreset) {
        // (a) every state component is finite after the step
        bool fin_qv = mu::all_finite(d->qpos, m->nq) && mu::all_finite(d->qvel, m->nv) && std::isfinite(d->time);
        if (!fin_qv && acc_known && !bad_qacc) {
          // every value the engine checks (qpos, qvel at entry, qacc of the forward pass) was finite and within the
          // limit, yet the integrator overflowed inside the step
          static const char* integ[] = {"Euler", "RK4", "implicit", "implicitfast"};
          char cls[96]; snprintf(cls, sizeof cls, "blowup-inside-%s-step:%s", integ[m->opt.integrator & 3], last_fault.c_str());
          violation(cls, "step %d: all checked quantities were within limits, yet qpos/qvel are not finite after mj_step", k);
        }
        if (!fin_qv) violation("nonfinite-state", "step %d: qpos/qvel/time not finite after mj_step with autoreset enabled", k);
        if (!mu::all_finite(d->act, m->na)) {
          // which actuators own the non-finite activations?
          bool only_disabled = true; int first = -1;
          for (int a = 0; a < m->nu; a++) {
            int adr = m->actuator_actadr[a], num = m->actuator_actnum[a];
            if (adr < 0) continue;
            for (int j = adr; j < adr + num; j++) if (!std::isfinite(d->act[j])) {
              if (first < 0) first = a;
              int g = m->actuator_group[a];
              bool disabled = (m->opt.disableflags & mjDSBL_ACTUATION) || (g >= 0 && g <= 30 && (m->opt.disableactuator & (1 << g)));
              if (!disabled) only_disabled = false;
            }
          }
          if (only_disabled) violation("nonfinite-act-disabled-actuator", "step %d: activation of disabled actuator %d stays non-finite after mj_step (nothing reads it, nothing resets it)", k, first);
          violation("nonfinite-state", "step %d: activation of actuator %d is not finite after mj_step with autoreset enabled", k, first);
        }
      }
      // (b) the matching warning counter is raised for bad positions / velocities entering the step
      if (bad_qpos && !wq) violation("missing-warning", "step %d: a bad value was in qpos at the start of mj_step but the BADQPOS counter is %d (was %d)", k, d->warning[mjWARN_BADQPOS].number, w0[mjWARN_BADQPOS]);
      if (!bad_qpos && bad_qvel && !wv) violation("missing-warning", "step %d: a bad value was in qvel at the start of mj_step but the BADQVEL counter is %d (was %d)", k, d->warning[mjWARN_BADQVEL].number, w0[mjWARN_BADQVEL]);
      if (bad_qpos || bad_qvel) count("steps_entered_with_bad_state");
      if (acc_known && bad_qacc) {
        count("steps_with_bad_acceleration");
        bool wa = d->warning[mjWARN_BADQACC].number > (autoreset ? 0 : w0[mjWARN_BADQACC]);
        if (!wa) violation("missing-warning", "step %d: forward dynamics of the entering state has a bad acceleration but the BADQACC counter is %d (was %d)", k, d->warning[mjWARN_BADQACC].number, w0[mjWARN_BADQACC]);
      }
      // (c) a reset replaces the bad values by the initial state: this step then equals the first step of a fresh instance
      bool any_reset = autoreset && (d->time < t0 || ((bad_qpos || bad_qvel) && (wq || wv)));
      bool acc_reset = autoreset && d->warning[mjWARN_BADQACC].number == 1 && d->time <= m->opt.timestep * 1.5 && t0 > 0;
      if (any_reset || acc_reset) {
        resets++; count("autoresets");
        mj_resetData(m, ref);
        mju_copy(ref->mocap_pos, ref->mocap_pos, 0);
        bool e2 = ND_GUARD({ mj_step(m, ref); });
        if (!e2 && ref->warning[mjWARN_BADQACC].number == 0) {
          static const std::set<std::string> only = {"qpos", "qvel", "act"};
          mu::Diff df = mu::compare(m, d, ref, {}, &only);
          if (df.differs || memcmp(&d->time, &ref->time, sizeof(mjtNum)))
            violation("bad-value-propagated", "step %d: after an automatic reset the state differs from one step out of the initial state in %s[%ld] (%s)", k, df.field.c_str(), df.index, df.detail.c_str());
          count("reset_equals_initial_step_checks");
        }
      }
    }
    if (fired) { signature(sig); sample(g_scenario); }
    mj_deleteData(d); mj_deleteData(ref);
    mj_deleteModel(m);
    end_case();
  }
  print_summary();
  return 0;
}
