// C50: visualization scene construction is bounded and faithful (capacity-fault enumeration).
// Every visual element goes through acquireGeom, which returns NULL once scn->ngeom == scn->maxgeom; each of the
// ~60 call sites in engine_vis_visualize.c must survive that NULL.  Setting the capacity to k makes exactly the
// (k+1)-th acquisition fail, so "for every k" is the same shape as "the k-th allocation fails".
// Per case: a model after a seeded number of steps, seeded mjvOption / perturbation / category mask; one ample
// reference scene (N geoms); then a fresh exact-size scene for EVERY capacity 0..N (ASan sees a write past the
// geom array): ngeom <= maxgeom, status != 0 exactly when N > maxgeom, two builds identical; and with
// only geom visualization enabled the scene holds exactly the enabled model geoms with their pose and size.
#include "hist.h"

using namespace nd;

static void random_option(Rng& r, mjvOption* o, int richness) {
  mjv_defaultOption(o);
  if (richness == 0) return;                           // defaults
  for (int i = 0; i < mjNVISFLAG; i++) o->flags[i] = r.chance(richness == 2 ? 0.7 : 0.35);
  if (r.chance(0.7)) o->flags[mjVIS_STATIC] = 1;
  o->label = r.below(mjNLABEL);
  o->frame = r.below(mjNFRAME);
  for (int g = 0; g < mjNGROUP; g++) {
    o->geomgroup[g] = r.chance(0.8); o->sitegroup[g] = r.chance(0.7); o->jointgroup[g] = r.chance(0.7); o->tendongroup[g] = r.chance(0.7);
    o->actuatorgroup[g] = r.chance(0.7); o->flexgroup[g] = r.chance(0.7); o->skingroup[g] = r.chance(0.7);
  }
  o->bvh_depth = r.range(0, 4);
  o->flex_layer = r.range(0, 2);
}

struct Built { int ngeom, status; std::vector<mjvGeom> geoms; bool raised; };
// build into a FRESH scene of exactly `cap` geoms (status is sticky by design, so every capacity gets its own scene)
static Built build(const mjModel* m, mjData* d, const mjvOption* opt, const mjvPerturb* pert, mjvCamera* cam, int catmask, int cap) {
  Built b{0, 0, {}, false};
  mjvScene scn; mjv_defaultScene(&scn);
  mjvCamera c = *cam;
  b.raised = ND_GUARD({
    mjv_makeScene(m, &scn, cap);
    mjv_updateScene(m, d, opt, pert, &c, catmask, &scn);
  });
  if (!b.raised) {
    b.ngeom = scn.ngeom; b.status = scn.status;
    if (scn.ngeom > 0 && scn.ngeom <= scn.maxgeom) b.geoms.assign(scn.geoms, scn.geoms + scn.ngeom);
    if (scn.maxgeom != cap) violation("scene-capacity", "mjv_makeScene(%d) produced maxgeom=%d", cap, scn.maxgeom);
  }
  mjv_freeScene(&scn);
  return b;
}

int main(int argc, char** argv) {
  setup(argc, argv, "C50");
  use_caching_alloc();
  hs::Supply sup; sup.init(); sup.allow_flex = true;
  long maxexec = opt_long("maxexec", 600);
  for (uint64_t s = g_args.seed0; s < g_args.seed0 + g_args.n; s++) {
    begin_case(s);
    Rng r(s);
    mg::GenOpts go; go.memory = "4M"; go.flex_chance = 0.08;
    if (r.chance(0.15)) { go.dense_cluster = true; go.cluster_n = r.range(4, 14); go.cluster_convex = true; }
    std::string mdesc;
    sup.corpus_share = 0.45;
    mjModel* m = sup.get(r, go, &mdesc, nullptr, 200);
    if (!m) { end_case(); continue; }
    mjData* d = mu::make_data(m, s);
    // ---- state: a seeded number of steps so that contacts, forces, islands, sleeping bodies exist
    int nstep = r.chance(0.2) ? 0 : r.range(1, 40);
    bool e = ND_GUARD({
      for (int i = 0; i < nstep; i++) { for (int j = 0; j < m->nu; j++) d->ctrl[j] = r.uniform(-1, 1); mj_step(m, d); }
      mj_forward(m, d);
    });
    if (e) { count("model_skipped_sim_error"); mu::dispose(d); mj_deleteModel(m); end_case(); continue; }
    if (r.chance(0.3) && m->nbody > 1) { int b = r.range(1, m->nbody - 1); for (int k = 0; k < 6; k++) d->xfrc_applied[6 * b + k] = r.uniform(-2, 2); }
    // ---- options
    int richness = r.below(3);
    mjvOption opt; random_option(r, &opt, richness);
    mjvCamera cam; mjv_defaultCamera(&cam);
    if (r.chance(0.3) && m->ncam) { cam.type = mjCAMERA_FIXED; cam.fixedcamid = r.below(m->ncam); }
    else if (r.chance(0.3) && m->nbody > 1) { cam.type = mjCAMERA_TRACKING; cam.trackbodyid = r.range(1, m->nbody - 1); }
    mjvPerturb pert; mjv_defaultPerturb(&pert);
    bool use_pert = r.chance(0.5);
    if (use_pert && m->nbody > 1) {
      pert.select = r.range(1, m->nbody - 1); pert.active = r.below(4); pert.active2 = r.below(4);
      { mjvScene ts; mjv_defaultScene(&ts); mjv_makeScene(m, &ts, 2000); mjvOption to; mjv_defaultOption(&to); mjvCamera tc = cam; mjv_updateScene(m, d, &to, nullptr, &tc, mjCAT_ALL, &ts); mjv_initPerturb(m, d, &ts, &pert); mjv_freeScene(&ts); }
      pert.refpos[0] += 0.1; pert.localpos[2] = 0.05;
      if (r.chance(0.5)) pert.skinselect = -1;
    }
    static const int masks[] = {mjCAT_ALL, mjCAT_ALL, mjCAT_STATIC | mjCAT_DYNAMIC, mjCAT_DYNAMIC, mjCAT_DECOR | mjCAT_DYNAMIC, mjCAT_STATIC, mjCAT_DECOR};
    int catmask = masks[r.below(7)];
    char sc[200]; snprintf(sc, sizeof sc, " steps=%d richness=%d catmask=%d pert=%d label=%d frame=%d cam=%d", nstep, richness, catmask, use_pert ? pert.select : -1, opt.label, opt.frame, cam.type);
    g_scenario = mdesc + sc;
    // ---- reference scene with ample capacity
    Built ref = build(m, d, &opt, use_pert ? &pert : nullptr, &cam, catmask, 60000);
    if (ref.raised) { count("reference_raised_mju_error"); if (g_args.verbose) printf("ref error: %s\n", g_lasterr); mu::dispose(d); mj_deleteModel(m); end_case(); continue; }
    if (ref.status != 0) { count("reference_overflowed_60000"); mu::dispose(d); mj_deleteModel(m); end_case(); continue; }
    int N = ref.ngeom;
    count("reference_geoms", N);
    // objtype histogram: which emitting sites ran
    {
      bool decor = false, contact = false;
      for (auto& g : ref.geoms) { if (g.category == mjCAT_DECOR) decor = true; if (g.objtype == mjOBJ_UNKNOWN && g.category == mjCAT_DECOR && g.type == mjGEOM_CYLINDER) contact = true; }
      if (decor) count("cases_with_decor_geoms"); if (contact) count("cases_with_cylinder_decor");
      if (m->nflex) count("cases_with_flex"); if (m->nskin) count("cases_with_skin"); if (m->nmesh) count("cases_with_mesh");
    }
    // ---- capacities
    std::vector<int> caps;
    if (N + 1 <= maxexec) for (int k = 0; k <= N; k++) caps.push_back(k);
    else {
      for (int k = 0; k <= 40 && k <= N; k++) caps.push_back(k);
      for (int k = std::max(0, N - 40); k <= N; k++) caps.push_back(k);
      for (long i = 0; i < maxexec - 82; i++) caps.push_back(r.below(N + 1));
    }
    caps.push_back(N + 1); caps.push_back(N + 7);
    int n_invisible = 0;   // model geoms and sites whose effective alpha (own rgba over material) is 0
    { auto inv = [&](const float* rgba, int mat) { bool own = rgba[0] != 0.5f || rgba[1] != 0.5f || rgba[2] != 0.5f || rgba[3] != 1.0f || mat < 0; return (own ? rgba[3] : m->mat_rgba[4 * mat + 3]) == 0; };
      for (int i = 0; i < m->ngeom; i++) n_invisible += inv(m->geom_rgba + 4 * i, m->geom_matid[i]);
      for (int i = 0; i < m->nsite; i++) n_invisible += inv(m->site_rgba + 4 * i, m->site_matid[i]); }
    int prefix_ok = 0, prefix_bad = 0;
    for (int k : caps) {
      char sk[32]; snprintf(sk, sizeof sk, " maxgeom=%d/%d", k, N); g_scenario = mdesc + sc + sk;
      Built a = build(m, d, &opt, use_pert ? &pert : nullptr, &cam, catmask, k);
      count("faulted_executions");
      if (a.raised) violation("capacity-error", "mjv_updateScene raised mju_error with maxgeom=%d (uncapped scene has %d geoms): %s", k, N, g_lasterr);
      if (a.ngeom > k) violation("capacity-exceeded", "scene with maxgeom=%d reports ngeom=%d", k, a.ngeom);
      if (a.ngeom < 0) violation("capacity-exceeded", "negative ngeom %d", a.ngeom);
      bool overflow = N > k;
      if (overflow && a.status == 0) violation("overflow-not-reported", "uncapped scene has %d geoms, maxgeom=%d, but scn.status is 0 (ngeom=%d)", N, k, a.ngeom);
      // the converse direction (status set although nothing was dropped) is not demanded by the statement; it is still judged where the engine
      // cannot have needed more slots than it filled: elements that are invisible by their own colour take a slot and give it back, so
      // they count as demand here (a scene that fits exactly may report "full" when the last element tried is such an invisible one)
      if (!overflow && k >= N + n_invisible && a.status != 0) violation("spurious-overflow", "uncapped scene has %d geoms, maxgeom=%d (and %d elements invisible by colour), but scn.status=%d", N, k, n_invisible, a.status);
      if (!overflow && a.ngeom != N) violation("nondeterministic", "maxgeom=%d >= %d geoms but the scene holds %d", k, N, a.ngeom);
      if (!overflow && N && memcmp(a.geoms.data(), ref.geoms.data(), sizeof(mjvGeom) * (size_t)N)) {
        int i = 0; while (i < N && !memcmp(&a.geoms[i], &ref.geoms[i], sizeof(mjvGeom))) i++;
        violation("nondeterministic", "same model, data and options: geom %d of %d differs between two scene builds (objtype %d objid %d)", i, N, ref.geoms[i].objtype, ref.geoms[i].objid);
      }
      // determinism at the faulted capacity: a second fresh build is identical
      if (overflow && (k % 7 == 0 || k < 4)) {
        Built b2 = build(m, d, &opt, use_pert ? &pert : nullptr, &cam, catmask, k);
        if (b2.ngeom != a.ngeom || b2.status != a.status || (a.ngeom && memcmp(a.geoms.data(), b2.geoms.data(), sizeof(mjvGeom) * (size_t)a.ngeom)))
          violation("nondeterministic", "two builds with maxgeom=%d differ (ngeom %d vs %d)", k, a.ngeom, b2.ngeom);
        count("repeat_builds");
      }
      // observation only (not asserted: the statement does not promise it): is the capped scene a prefix of the uncapped one?
      if (overflow && a.ngeom) { if (!memcmp(a.geoms.data(), ref.geoms.data(), sizeof(mjvGeom) * (size_t)a.ngeom)) prefix_ok++; else prefix_bad++; }
    }
    count("capped_scene_is_prefix", prefix_ok); count("capped_scene_is_not_prefix", prefix_bad);
    if (N + 1 <= maxexec) count("cases_with_every_capacity");
    // ---- faithfulness: only geom visualization enabled
    {
      mjvOption fo; mjv_defaultOption(&fo);
      for (int i = 0; i < mjNVISFLAG; i++) fo.flags[i] = 0;
      fo.flags[mjVIS_STATIC] = r.chance(0.8);
      fo.label = mjLABEL_NONE; fo.frame = mjFRAME_NONE;
      for (int g = 0; g < mjNGROUP; g++) { fo.geomgroup[g] = r.chance(0.7); fo.sitegroup[g] = 0; fo.jointgroup[g] = 0; fo.tendongroup[g] = 0; fo.actuatorgroup[g] = 0; fo.flexgroup[g] = 0; fo.skingroup[g] = 0; }
      int fmask = r.chance(0.7) ? (mjCAT_STATIC | mjCAT_DYNAMIC) : r.chance(0.5) ? mjCAT_DYNAMIC : mjCAT_ALL;
      g_scenario = mdesc + sc + " faithful";
      Built f = build(m, d, &fo, nullptr, &cam, fmask, 60000);
      if (f.raised) violation("capacity-error", "geom-only scene raised mju_error: %s", g_lasterr);
      // expected: model geoms in order, category allowed, group enabled, visible alpha
      std::vector<int> expect;
      for (int i = 0; i < m->ngeom; i++) {
        int cat = m->body_weldid[m->geom_bodyid[i]] == 0 ? mjCAT_STATIC : mjCAT_DYNAMIC;
        int mask = fmask; if (!fo.flags[mjVIS_STATIC]) mask &= ~mjCAT_STATIC;
        if (!(cat & mask)) continue;
        int grp = std::max(0, std::min(mjNGROUP - 1, m->geom_group[i]));
        if (!fo.geomgroup[grp]) continue;
        const float* rgba = m->geom_rgba + 4 * i; int mat = m->geom_matid[i];
        bool own = rgba[0] != 0.5f || rgba[1] != 0.5f || rgba[2] != 0.5f || rgba[3] != 1.0f || mat < 0;
        float alpha = own ? rgba[3] : m->mat_rgba[4 * mat + 3];
        if (alpha == 0) continue;                     // invisible by the model's own colour
        expect.push_back(i);
      }
      std::vector<const mjvGeom*> got;
      for (auto& g : f.geoms) {
        if (g.objtype == mjOBJ_GEOM) got.push_back(&g);
        else violation("unfaithful", "geom-only scene contains an element of object type %d (id %d, category %d)", g.objtype, g.objid, g.category);
      }
      if (got.size() != expect.size()) violation("unfaithful", "geom-only scene holds %zu model geoms, expected %zu (ngeom=%d, static flag %d, catmask %d)", got.size(), expect.size(), (int)m->ngeom, fo.flags[mjVIS_STATIC], fmask);
      for (size_t k = 0; k < expect.size(); k++) {
        int i = expect[k]; const mjvGeom* g = got[k];
        if (g->objid != i) violation("unfaithful", "scene geom %zu is model geom %d, expected %d", k, g->objid, i);
        if (g->type != m->geom_type[i]) violation("unfaithful", "model geom %d has type %d, scene says %d", i, m->geom_type[i], g->type);
        bool infinite_plane = m->geom_type[i] == mjGEOM_PLANE && (m->geom_size[3 * i] <= 0 || m->geom_size[3 * i + 1] <= 0);
        for (int c = 0; c < 3 && !infinite_plane; c++) if (g->pos[c] != (float)d->geom_xpos[3 * i + c]) violation("unfaithful", "model geom %d: scene pos[%d]=%.9g, simulated %.9g", i, c, g->pos[c], (float)d->geom_xpos[3 * i + c]);
        for (int c = 0; c < 9; c++) if (g->mat[c] != (float)d->geom_xmat[9 * i + c]) violation("unfaithful", "model geom %d: scene mat[%d]=%.9g, simulated %.9g", i, c, g->mat[c], (float)d->geom_xmat[9 * i + c]);
        const mjtNum* sz = m->geom_size + 3 * i; float es[3];
        switch (m->geom_type[i]) {
          case mjGEOM_SPHERE: es[0] = es[1] = es[2] = (float)sz[0]; break;
          case mjGEOM_CAPSULE: case mjGEOM_CYLINDER: es[0] = es[1] = (float)sz[0]; es[2] = (float)sz[1]; break;
          default: es[0] = (float)sz[0]; es[1] = (float)sz[1]; es[2] = (float)sz[2];
        }
        for (int c = 0; c < 3; c++) if (g->size[c] != es[c]) violation("unfaithful", "model geom %d (type %d): scene size[%d]=%.9g, model %.9g", i, m->geom_type[i], c, g->size[c], es[c]);
        int cat = m->body_weldid[m->geom_bodyid[i]] == 0 ? mjCAT_STATIC : mjCAT_DYNAMIC;
        if (g->category != cat) violation("unfaithful", "model geom %d: category %d, expected %d", i, g->category, cat);
        { const float* rgba = m->geom_rgba + 4 * i; int mat = m->geom_matid[i];
          bool own = rgba[0] != 0.5f || rgba[1] != 0.5f || rgba[2] != 0.5f || rgba[3] != 1.0f || mat < 0;
          float alpha = own ? rgba[3] : m->mat_rgba[4 * mat + 3];
          if (g->rgba[3] != alpha) violation("unfaithful", "model geom %d: scene alpha %.9g, the model's colour rule (own rgba over material) gives %.9g", i, g->rgba[3], alpha); }
      }
      count("faithful_scenes"); count("faithful_geoms_checked", expect.size());
    }
    uint64_t sig = fnv_str(mdesc); sig = fnv(&N, sizeof N, sig); sig = fnv(&catmask, sizeof catmask, sig);
    if (N > 0) signature(sig);
    { char b[300]; snprintf(b, sizeof b, "%s: %d geoms uncapped, %zu capacities", (mdesc + sc).c_str(), N, caps.size()); sample(b); }
    mu::dispose(d);
    mj_deleteModel(m);
    end_case();
  }
  print_summary();
  return 0;
}
