// C19 (sequential part): internal stack and arena allocation is memory-safe.
// Seeded well-nested histories of mj_markStack / mj_stackAllocByte|Num|Int / mj_freeStack / mj_arenaAllocByte /
// arena rewind on an mjData whose arena size is a per-run knob (0 .. 64 KiB), against a shadow model of live
// blocks and frames.  Faults: exhaustion at every point a history reaches it, absurd sizes (SIZE_MAX-k, 2^63,
// the overflow guards of the Num/Int variants).  Built in the `plain` variant (real layout, no red zones) and in
// the `asan` variant (engine's own red zones + poisoning: a write outside a returned block is an ASan report).
// Mode "api": every public engine call returns with the stack pointer it started with.
#include "hist.h"
extern "C" void* mj_arenaAllocByte(mjData* d, size_t bytes, size_t alignment);   // src/engine/engine_memory.h (MJAPI)

using namespace nd;

struct Blk { char* p; size_t n; unsigned char pat; bool arena; };
struct Frame { size_t ps, pb; std::vector<Blk> blocks; };

static const mjModel* g_m;
static mjData* g_d;
static std::vector<Frame> g_frames;       // g_frames[0] is the implicit outermost frame (no mark)
static std::vector<Blk> g_arena;
static long g_ops = 0;

static bool overlaps(const Blk& a, const char* p, size_t n) { return a.n && n && a.p < p + n && p < a.p + a.n; }

static void check_new_block(const char* what, char* p, size_t n, size_t align, bool arena, size_t parena_before, size_t pstack_before) {
  mjData* d = g_d;
  char* base = (char*)d->arena;
  if (!p) violation("null-block", "%s(%zu, align %zu) returned NULL although it did not report exhaustion", what, n, align);
  if (align && ((uintptr_t)p % align)) violation("misaligned", "%s(%zu) returned %p, not aligned to %zu", what, n, (void*)p, align);
  if (arena) {
    if (p < base + parena_before || p + n > base + (d->narena - pstack_before))
      violation("out-of-bounds", "arena block [%td,%td) outside the free region [%zu,%zu) of an arena of %zu bytes", p - base, p - base + (ptrdiff_t)n, parena_before, (size_t)(d->narena - pstack_before), (size_t)d->narena);
  } else {
    if (p < base + d->parena || p + n > base + d->narena - pstack_before)
      violation("out-of-bounds", "stack block [%td,%td) outside the free region [%zu,%zu) of an arena of %zu bytes (pstack before %zu)", p - base, p - base + (ptrdiff_t)n, (size_t)d->parena, (size_t)(d->narena - pstack_before), (size_t)d->narena, pstack_before);
  }
  for (auto& f : g_frames) for (auto& b : f.blocks) if (overlaps(b, p, n)) violation("overlap", "%s(%zu) returned [%td,%td) overlapping live stack block [%td,%td)", what, n, p - base, p - base + (ptrdiff_t)n, b.p - base, b.p - base + (ptrdiff_t)b.n);
  for (auto& b : g_arena) if (overlaps(b, p, n)) violation("overlap", "%s(%zu) returned [%td,%td) overlapping live arena block [%td,%td)", what, n, p - base, p - base + (ptrdiff_t)n, b.p - base, b.p - base + (ptrdiff_t)b.n);
}
static void verify(const Blk& b, const char* when) {
  for (size_t i = 0; i < b.n; i++) if ((unsigned char)b.p[i] != b.pat) violation("clobbered", "%s block of %zu bytes at arena offset %td was overwritten at byte %zu while live (%s)", b.arena ? "arena" : "stack", b.n, b.p - (char*)g_d->arena, i, when);
}
static void verify_all(const char* when) {
  for (auto& f : g_frames) for (auto& b : f.blocks) verify(b, when);
  for (auto& b : g_arena) verify(b, when);
}

// sizes: mostly small, sometimes around what is left, sometimes absurd
static size_t pick_size(Rng& r, size_t avail, int* klass) {
  int k = r.below(100);
  if (k < 55) { *klass = 0; return (size_t)r.range(1, 200); }
  if (k < 70) { *klass = 0; return (size_t)r.range(200, 5000); }
  if (k < 80) { *klass = 1; long v = (long)avail + r.range(-96, 96); return v < 0 ? 0 : (size_t)v; }     // around the boundary
  if (k < 85) { *klass = 2; return 0; }
  if (k < 90) { *klass = 3; return SIZE_MAX - (size_t)r.below(130); }
  if (k < 94) { *klass = 3; return ((size_t)1 << 63) + (size_t)r.range(-64, 64); }
  if (k < 97) { *klass = 3; return ((size_t)1 << r.range(31, 62)) + (size_t)r.range(-2, 2); }
  *klass = 1; return avail > 64 ? avail - (size_t)r.below(64) : avail;
}

// guard without a lambda (see the note below): evaluates stmt, sets errvar if mju_error was raised inside it
#define GUARD_INLINE(errvar, stmt) do { jmp_buf jb_; jmp_buf* prev_ = nd::g_jmp; nd::g_jmp = &jb_; errvar = false; if (setjmp(jb_)) errvar = true; else { stmt; } nd::g_jmp = prev_; } while (0)

// NOTE: under ASan the engine requires mj_markStack and mj_freeStack to be called from the same function, so the whole
// history runs inside this one function.
static void run_history(Rng& r, int nops) {
  mjData* volatile dv = g_d; mjData* d = dv;
  unsigned char pat = 1;
  for (int op = 0; op < nops; op++) {
    if (g_args.drop.count(op)) { for (int i = 0; i < 6; i++) r.next(); continue; }   // keep the stream aligned for the minimiser
    uint64_t draws[6]; for (auto& x : draws) x = r.next();
    Rng q(draws[0] ^ (draws[1] << 1));
    int k = (int)(draws[2] % 100);
    size_t ps0 = d->pstack, pb0 = d->pbase, pa0 = d->parena;
    size_t avail = d->narena - d->parena - d->pstack;
    g_ops++;
    if (k < 18) {                                  // ---- mark
      bool e; GUARD_INLINE(e, mj_markStack(d););
      if (e) {
        if (avail > 256) violation("spurious-exhaustion", "mj_markStack raised '%s' with %zu bytes free", g_lasterr, avail);
        if (d->pstack != ps0 || d->pbase != pb0 || d->parena != pa0) violation("state-after-error", "failed mj_markStack changed pstack/pbase/parena");
        count("exhaustion_mark");
        continue;
      }
      if (d->pstack <= ps0 && !d->threadlock) violation("mark-no-frame", "mj_markStack did not reserve a frame record (pstack %zu -> %zu)", ps0, (size_t)d->pstack);
      if (d->pstack > (size_t)d->narena - d->parena) violation("out-of-bounds", "after mj_markStack pstack=%zu exceeds the free region %zu", (size_t)d->pstack, (size_t)(d->narena - d->parena));
      g_frames.push_back(Frame{ps0, pb0, {}});
      count("op_mark");
    } else if (k < 62) {                           // ---- stack allocation (Byte / Num / Int)
      int klass = 0;
      size_t sz = pick_size(q, avail, &klass);
      int which = q.below(10);                     // 0..5 Byte, 6..7 Num, 8..9 Int
      size_t align = which < 6 ? ((size_t)1 << q.below(9)) : which < 8 ? sizeof(mjtNum) : sizeof(int);
      size_t bytes = sz, elems = sz;
      const char* what = which < 6 ? "mj_stackAllocByte" : which < 8 ? "mj_stackAllocNum" : "mj_stackAllocInt";
      if (which >= 6) {
        size_t es = which < 8 ? sizeof(mjtNum) : sizeof(int);
        if (klass == 3) { elems = SIZE_MAX / es + (size_t)q.range(-2, 2); if (q.chance(0.3)) elems = sz; }   // the overflow guards
        else elems = sz / es;
        bytes = elems * es;                         // (wraps for absurd counts: exactly what the guard is for)
      }
      void* p = nullptr;
      bool e; GUARD_INLINE(e, p = which < 6 ? mj_stackAllocByte(d, bytes, align) : which < 8 ? (void*)mj_stackAllocNum(d, elems) : (void*)mj_stackAllocInt(d, elems););
      bool absurd = which >= 6 ? elems > (size_t)d->narena : bytes > (size_t)d->narena;
      if (e) {
        // an error is legitimate only when the request (with worst-case padding and red zones) does not fit
        if (!absurd && bytes + align + 80 <= avail) violation("spurious-exhaustion", "%s(%zu bytes, align %zu) raised '%s' with %zu bytes free", what, bytes, align, g_lasterr, avail);
        if (d->pstack != ps0 || d->pbase != pb0 || d->parena != pa0) violation("state-after-error", "failed %s changed pstack/pbase/parena (%zu/%zu/%zu -> %zu/%zu/%zu)", what, ps0, pb0, pa0, (size_t)d->pstack, (size_t)d->pbase, (size_t)d->parena);
        count(absurd ? "exhaustion_absurd_size" : "exhaustion_stack");
        continue;
      }
      if (absurd) violation("absurd-size-accepted", "%s of %zu %s (arena is %zu bytes) did not raise an error and returned %p", what, which < 6 ? bytes : elems, which < 6 ? "bytes" : "elements", (size_t)d->narena, p);
      if (!(which < 6 ? bytes : elems)) { if (p) violation("zero-size", "%s(0) returned a non-NULL pointer", what); if (d->pstack != ps0) violation("zero-size", "%s(0) moved the stack", what); count("op_alloc_zero"); continue; }
      check_new_block(what, (char*)p, bytes, align, false, pa0, ps0);
      if (d->pstack < ps0 + bytes) violation("stack-not-advanced", "%s(%zu) advanced pstack by %zu only", what, bytes, (size_t)d->pstack - ps0);
      if (d->pstack > (size_t)d->narena - d->parena) violation("out-of-bounds", "after %s pstack=%zu exceeds the free region", what, (size_t)d->pstack);
      if (d->pbase != pb0) violation("pbase-changed", "%s changed pbase", what);
      Blk b{(char*)p, bytes, pat, false}; pat = pat == 255 ? 1 : pat + 1;
      memset(b.p, b.pat, b.n);
      g_frames.back().blocks.push_back(b);
      count("op_stack_alloc");
      if (klass == 1) count("stack_alloc_at_boundary_succeeded");
    } else if (k < 76) {                           // ---- free
      if (g_frames.size() <= 1) {
        // free without a mark at the outermost level: documented no-op when there is no frame
        if (d->pbase == 0) { mj_freeStack(d); if (d->pstack != ps0 || d->pbase != 0) violation("free-without-mark", "mj_freeStack with no frame changed the stack (%zu -> %zu)", ps0, (size_t)d->pstack); count("op_free_noframe"); }
        continue;
      }
      for (auto& b : g_frames.back().blocks) verify(b, "at free");
      Frame f = g_frames.back();
      bool e; GUARD_INLINE(e, mj_freeStack(d););
      if (e) violation("free-error", "mj_freeStack raised '%s'", g_lasterr);
      g_frames.pop_back();
      if (d->pstack != f.ps || d->pbase != f.pb) violation("free-not-restored", "mj_freeStack restored pstack/pbase to %zu/%zu, the matching mj_markStack was entered with %zu/%zu", (size_t)d->pstack, (size_t)d->pbase, f.ps, f.pb);
      if (d->parena != pa0) violation("free-moved-arena", "mj_freeStack changed parena");
      count("op_free");
    } else if (k < 94) {                           // ---- arena allocation
      int klass = 0;
      size_t sz = pick_size(q, avail, &klass);
      size_t align = (size_t)1 << q.below(8);
      void* p = nullptr;
      bool e; GUARD_INLINE(e, p = mj_arenaAllocByte(d, sz, align););
      if (e) violation("arena-error", "mj_arenaAllocByte raised '%s' (exhaustion must be a NULL result)", g_lasterr);
      if (!p) {
        if (sz && sz <= (size_t)d->narena && sz + align <= avail) violation("spurious-exhaustion", "mj_arenaAllocByte(%zu, %zu) returned NULL with %zu bytes free", sz, align, avail);
        if (d->parena != pa0 || d->pstack != ps0 || d->pbase != pb0) violation("state-after-error", "failed mj_arenaAllocByte changed parena/pstack/pbase");
        count(sz ? "exhaustion_arena" : "op_arena_zero");
        continue;
      }
      if (sz > (size_t)d->narena) violation("absurd-size-accepted", "mj_arenaAllocByte(%zu) on an arena of %zu bytes returned %p", sz, (size_t)d->narena, p);
      if (sz) check_new_block("mj_arenaAllocByte", (char*)p, sz, align, true, pa0, ps0);
      if (d->parena < pa0 + sz || d->parena > (size_t)d->narena - d->pstack) violation("out-of-bounds", "after mj_arenaAllocByte(%zu) parena=%zu (before %zu, stack %zu, arena %zu)", sz, (size_t)d->parena, pa0, (size_t)d->pstack, (size_t)d->narena);
      if (d->pstack != ps0 || d->pbase != pb0) violation("arena-moved-stack", "mj_arenaAllocByte changed pstack/pbase");
      if (sz) { Blk b{(char*)p, sz, pat, true}; pat = pat == 255 ? 1 : pat + 1; memset(b.p, b.pat, b.n); g_arena.push_back(b); }
      count("op_arena_alloc");
      if (klass == 1) count("arena_alloc_at_boundary_succeeded");
    } else if (k < 96 && q.chance(0.6)) {          // ---- thread-locked segment, as mju_dispatch brackets it: mark, lock, reservations, unlock, free
      bool e; GUARD_INLINE(e, mj_markStack(d););
      if (e) { count("exhaustion_mark"); continue; }
      Frame fr{ps0, pb0, {}};
      d->threadlock = 1;
      int nres = q.range(1, 8);
      bool failed = false;
      for (int i = 0; i < nres && !failed; i++) {
        int klass = 0;
        size_t av = d->narena - d->parena - d->pstack;
        size_t sz = pick_size(q, av, &klass);
        size_t align = (size_t)1 << q.below(8);
        size_t ps1 = d->pstack, pb1 = d->pbase;
        if (q.chance(0.3)) { mj_markStack(d); if (d->pstack != ps1 || d->pbase != pb1) violation("locked-mark", "mj_markStack under the thread lock changed the stack"); }
        void* p = nullptr;
        GUARD_INLINE(e, p = mj_stackAllocByte(d, sz, align););
        if (e) {
          if (sz <= (size_t)d->narena && sz + align + 80 <= av) violation("spurious-exhaustion", "locked mj_stackAllocByte(%zu, %zu) raised '%s' with %zu bytes free", sz, align, g_lasterr, av);
          count("exhaustion_locked"); failed = true; break;
        }
        if (sz > (size_t)d->narena) violation("absurd-size-accepted", "locked mj_stackAllocByte(%zu) on an arena of %zu bytes returned %p", sz, (size_t)d->narena, p);
        if (!sz) { if (p) violation("zero-size", "locked mj_stackAllocByte(0) returned non-NULL"); continue; }
        check_new_block("locked mj_stackAllocByte", (char*)p, sz, align, false, d->parena, ps1);
        for (auto& b : fr.blocks) if (overlaps(b, (char*)p, sz)) violation("overlap", "locked reservation overlaps an earlier reservation of the same segment");
        if (d->pstack < ps1 + sz || d->pstack > (size_t)d->narena - d->parena) violation("out-of-bounds", "locked reservation left pstack=%zu (before %zu, size %zu)", (size_t)d->pstack, ps1, sz);
        Blk b{(char*)p, sz, pat, false}; pat = pat == 255 ? 1 : pat + 1; memset(b.p, b.pat, b.n); fr.blocks.push_back(b);
        if (q.chance(0.3)) { size_t ps2 = d->pstack; mj_freeStack(d); if (d->pstack != ps2) violation("locked-free", "mj_freeStack under the thread lock released memory"); }
        count("op_locked_reservation");
      }
      for (auto& b : fr.blocks) verify(b, "end of locked segment");
      verify_all("end of locked segment");
      d->threadlock = 0;
      if (failed) {
        // a failed reservation has already advanced pstack past the limit (there is no roll-back, and by MuJoCo's contract the
        // error handler does not return): the instance is finished, as after any mju_error
        count("locked_segment_ended_by_exhaustion");
        g_frames.resize(1); g_frames[0].blocks.clear(); g_arena.clear();
        d->pstack = 0; d->pbase = 0;
        return;
      }
      GUARD_INLINE(e, mj_freeStack(d););
      if (e) violation("free-error", "mj_freeStack after a locked segment raised '%s'", g_lasterr);
      if (d->pstack != ps0 || d->pbase != pb0) violation("free-not-restored", "after a thread-locked segment pstack/pbase are %zu/%zu, before it %zu/%zu", (size_t)d->pstack, (size_t)d->pbase, ps0, pb0);
      count("op_locked_segment");
    } else if (k < 97) {                           // ---- arena rewind (what the engine does at the start of every forward pass)
      for (auto& b : g_arena) verify(b, "at arena rewind");
      g_arena.clear();
      d->parena = 0;
      count("op_arena_rewind");
    } else {                                       // ---- global verification of every live pattern
      verify_all("mid-history");
      count("op_verify");
    }
  }
  // unwind: every open frame is freed and must restore its marked values
  while (g_frames.size() > 1) {
    for (auto& b : g_frames.back().blocks) verify(b, "at final unwind");
    Frame f = g_frames.back();
    mj_freeStack(d);
    g_frames.pop_back();
    if (d->pstack != f.ps || d->pbase != f.pb) violation("free-not-restored", "final unwind: pstack/pbase %zu/%zu, expected %zu/%zu", (size_t)d->pstack, (size_t)d->pbase, f.ps, f.pb);
  }
  verify_all("at end");
}

// ------------------------------------------------------------------ mode "api": public calls leave the stack as they found it
struct Call { const char* name; std::function<void(const mjModel*, mjData*, Rng&)> fn; };
static std::vector<Call> api_calls() {
  std::vector<Call> v;
  v.push_back({"mj_step", [](const mjModel* m, mjData* d, Rng&) { mj_step(m, d); }});
  v.push_back({"mj_forward", [](const mjModel* m, mjData* d, Rng&) { mj_forward(m, d); }});
  v.push_back({"mj_inverse", [](const mjModel* m, mjData* d, Rng&) { mj_forward(m, d); mj_inverse(m, d); }});
  v.push_back({"mj_step1+mj_step2", [](const mjModel* m, mjData* d, Rng&) { mj_step1(m, d); mj_step2(m, d); }});
  v.push_back({"mj_forwardSkip", [](const mjModel* m, mjData* d, Rng& r) { mj_forward(m, d); mj_forwardSkip(m, d, r.below(3), r.below(2)); }});
  v.push_back({"mj_inverseSkip", [](const mjModel* m, mjData* d, Rng& r) { mj_forward(m, d); mj_inverseSkip(m, d, r.below(3), r.below(2)); }});
  v.push_back({"mj_resetData", [](const mjModel* m, mjData* d, Rng&) { mj_resetData(m, d); }});
  v.push_back({"mj_resetDataKeyframe", [](const mjModel* m, mjData* d, Rng&) { if (m->nkey) mj_resetDataKeyframe(m, d, 0); }});
  v.push_back({"mj_fullM", [](const mjModel* m, mjData* d, Rng&) { mj_forward(m, d); std::vector<mjtNum> M((size_t)m->nv * m->nv + 1); mj_fullM(m, d, M.data()); }});
  v.push_back({"mj_mulM/solveM", [](const mjModel* m, mjData* d, Rng&) { mj_forward(m, d); std::vector<mjtNum> a(m->nv + 1, 1.0), b(m->nv + 1); mj_mulM(m, d, b.data(), a.data()); mj_solveM(m, d, a.data(), b.data(), 1); mj_solveM2(m, d, a.data(), b.data(), d->qLDiagInv, 1); }});
  v.push_back({"mj_jac*", [](const mjModel* m, mjData* d, Rng& r) { mj_forward(m, d); std::vector<mjtNum> jp(3 * m->nv + 3), jr(3 * m->nv + 3); int b = r.below(m->nbody); mjtNum pt[3] = {0.1, 0.2, 0.3};
                             mj_jac(m, d, jp.data(), jr.data(), pt, b); mj_jacBody(m, d, jp.data(), jr.data(), b); mj_jacBodyCom(m, d, jp.data(), jr.data(), b); mj_jacSubtreeCom(m, d, jp.data(), b); mj_jacDot(m, d, jp.data(), jr.data(), pt, b);
                             if (m->ngeom) mj_jacGeom(m, d, jp.data(), jr.data(), r.below(m->ngeom)); if (m->nsite) mj_jacSite(m, d, jp.data(), jr.data(), r.below(m->nsite)); mj_angmomMat(m, d, jp.data(), b); }});
  v.push_back({"mj_energy/subtreeVel/rnePost", [](const mjModel* m, mjData* d, Rng&) { mj_forward(m, d); mj_energyPos(m, d); mj_energyVel(m, d); mj_subtreeVel(m, d); mj_rnePostConstraint(m, d); mj_comVel(m, d); mj_passive(m, d); }});
  v.push_back({"mj_rne", [](const mjModel* m, mjData* d, Rng&) { mj_forward(m, d); std::vector<mjtNum> res(m->nv + 1); mj_rne(m, d, 1, res.data()); mj_rne(m, d, 0, res.data()); }});
  v.push_back({"mj_contactForce/objectVel", [](const mjModel* m, mjData* d, Rng& r) { mj_forward(m, d); mjtNum f[6]; for (int i = 0; i < d->ncon; i++) mj_contactForce(m, d, i, f); int b = r.below(m->nbody); mj_objectVelocity(m, d, mjOBJ_BODY, b, f, r.below(2)); mj_objectAcceleration(m, d, mjOBJ_BODY, b, f, r.below(2)); }});
  v.push_back({"mj_geomDistance", [](const mjModel* m, mjData* d, Rng& r) { mj_forward(m, d); if (m->ngeom >= 2) { mjtNum fromto[6]; int a = r.below(m->ngeom), b = r.below(m->ngeom); if (a != b) mj_geomDistance(m, d, a, b, r.uniform(0.01, 2.0), r.chance(0.5) ? fromto : nullptr); } }});
  v.push_back({"mj_ray/mj_multiRay", [](const mjModel* m, mjData* d, Rng& r) { mj_forward(m, d); mjtNum p[3] = {r.uniform(-1, 1), r.uniform(-1, 1), 2}, v3[3] = {0, 0, -1}; int g[1]; mjtNum nrm[3]; mj_ray(m, d, p, v3, nullptr, 1, -1, g, nrm);
                                       mjtNum vecs[12] = {0, 0, -1, 0.1, 0, -1, 0, 0.1, -1, 1, 0, 0}; int ids[4]; mjtNum dist[4]; mj_multiRay(m, d, p, vecs, nullptr, 1, -1, ids, dist, nullptr, 4, 10.0); }});
  v.push_back({"mjd_transitionFD", [](const mjModel* m, mjData* d, Rng& r) { mj_forward(m, d); size_t n = 2 * (size_t)m->nv + m->na; std::vector<mjtNum> A(n * n + 1), B(n * (m->nu + 1) + 1); 
#if defined(__has_feature)
#if __has_feature(address_sanitizer)
    // the recorded finding stack-not-restored:mjd_transitionFD (an automatic reset underneath the routine's open stack frame) shows in this build
    // as a sanitizer report on the first use of the released work arrays, which would end the shard under another name; the plain build keeps
    // exercising and reporting it under its own key, this build runs the routine without automatic resets
    mjModel* mm = const_cast<mjModel*>(m); int df = mm->opt.disableflags; mm->opt.disableflags |= mjDSBL_AUTORESET;
    mjd_transitionFD(m, d, 1e-6, r.below(2), A.data(), m->nu ? B.data() : nullptr, nullptr, nullptr);
    mm->opt.disableflags = df; return;
#endif
#endif
    mjd_transitionFD(m, d, 1e-6, r.below(2), A.data(), m->nu ? B.data() : nullptr, nullptr, nullptr); }});
  v.push_back({"mjd_inverseFD", [](const mjModel* m, mjData* d, Rng& r) { mj_forward(m, d); size_t nv = m->nv; std::vector<mjtNum> a(nv * nv + 1), b(nv * nv + 1), c(nv * nv + 1); mjd_inverseFD(m, d, 1e-6, r.below(2), a.data(), b.data(), c.data(), nullptr, nullptr, nullptr, nullptr); }});
  v.push_back({"mj_setKeyframe/copyData/state", [](const mjModel* m, mjData* d, Rng&) { mjData* c = mj_copyData(nullptr, m, d); std::vector<mjtNum> st(mj_stateSize(m, mjSTATE_FULLPHYSICS) + 1); mj_getState(m, d, st.data(), mjSTATE_FULLPHYSICS); mj_setState(m, c, st.data(), mjSTATE_FULLPHYSICS); mj_copyData(d, m, c); mj_deleteData(c); }});
  v.push_back({"mj_constraintUpdate/mulJacVec", [](const mjModel* m, mjData* d, Rng&) { mj_forward(m, d); if (d->nefc) { std::vector<mjtNum> jar(d->nefc), res(d->nefc), vec(m->nv + 1, 0.5), res2(m->nv + 1); mj_mulJacVec(m, d, res.data(), vec.data()); mj_mulJacTVec(m, d, res2.data(), res.data()); mju_copy(jar.data(), res.data(), d->nefc); mjtNum cost; mj_constraintUpdate(m, d, jar.data(), &cost, 1); } }});
  v.push_back({"mj_isSparse/addM/printless", [](const mjModel* m, mjData* d, Rng&) { mj_forward(m, d); mj_getTotalmass(m); mj_makeM(m, d); mj_factorM(m, d); mj_tendon(m, d); mj_transmission(m, d); mj_sensorPos(m, d); mj_sensorVel(m, d); mj_sensorAcc(m, d); mj_collision(m, d); mj_makeConstraint(m, d); mj_island(m, d); mj_projectConstraint(m, d); mj_referenceConstraint(m, d); }});
  v.push_back({"mj_Euler/RungeKutta/implicit", [](const mjModel* m, mjData* d, Rng& r) { mj_forward(m, d); int k = r.below(3); bool imp = m->opt.integrator == mjINT_IMPLICIT || m->opt.integrator == mjINT_IMPLICITFAST; if (k == 0 || (k == 2 && !imp)) mj_Euler(m, d); else if (k == 1) mj_RungeKutta(m, d, 4); else mj_implicit(m, d); }});
  return v;
}

int main(int argc, char** argv) {
  setup(argc, argv, "C19");
  std::string mode = opt_str("mode", "seq");
  if (mode == "api") {
    use_caching_alloc();
    hs::Supply sup; sup.init();
    std::vector<Call> calls = api_calls();
    for (uint64_t s = g_args.seed0; s < g_args.seed0 + g_args.n; s++) {
      begin_case(s);
      Rng r(s);
      mg::GenOpts go; std::string mdesc;
      mjModel* m = sup.get(r, go, &mdesc, nullptr, 120);
      if (!m) { end_case(); continue; }
      if (m->opt.enableflags & mjENBL_SLEEP && m->opt.integrator == mjINT_RK4) { mj_deleteModel(m); end_case(); continue; }
      mjData* d = mu::make_data(m, s);
      // tight-memory runs: the arena is cut to a seeded fraction of what a forward pass needs, so that the calls below take the engine's
      // exhaustion paths (warnings, truncated constraint sets, caught errors) - the stack discipline must hold on those paths too
      bool tight = r.chance(0.35);
      if (tight) {
        bool e0 = ND_GUARD({ mj_forward(m, d); });
        size_t need = e0 ? 0 : (size_t)d->maxuse_arena;
        mu::dispose(d);
        if (need < 256) { tight = false; }
        else { m->narena = (mjtSize)(((size_t)(need * r.uniform(0.25, 1.02)) + 64) & ~(size_t)7); count("tight_arena_cases"); }
        d = nullptr;
        bool e1 = ND_GUARD({ d = mu::make_data(m, s); });     // (mj_makeData itself runs tendon kinematics on the stack)
        if (e1 || !d) { count("tight_arena_too_small_for_makeData"); mj_deleteModel(m); end_case(); continue; }
      }
      g_scenario = mdesc + (tight ? " [tight arena " + std::to_string((long)m->narena) + "]" : "") + " calls:";
      int nc = r.range(3, 12);
      uint64_t sig = fnv_str(mdesc);
      // optionally call from inside an open frame of the caller (engine calls nest inside user frames)
      bool outer = r.chance(0.4);
      bool ended = false;
      if (outer) { bool eo; size_t osz = (size_t)r.range(1, 300); GUARD_INLINE(eo, { mj_markStack(d); mj_stackAllocByte(d, osz, 8); }); if (eo) { mu::dispose(d); mj_deleteModel(m); end_case(); continue; } }   // (no lambda: mark and free must come from the same function under ASan)
      for (int i = 0; i < nc && !ended; i++) {
        int ci = r.below((int)calls.size());
        Rng rr(r.next());
        if (outer && (!strncmp(calls[ci].name, "mj_resetData", 12) || !strncmp(calls[ci].name, "mj_setKeyframe", 14))) ci = 0;   // (mj_copyData refuses an instance whose stack is in use)
        bool fd = !strncmp(calls[ci].name, "mjd_", 4);
        if (fd && (m->opt.integrator == mjINT_RK4 || m->opt.noslip_iterations > 0 || (m->opt.enableflags & mjENBL_SLEEP))) ci = 1;   // documented unsupported combinations   // a reset inside an open caller frame is a caller error (it clears the stack by design)
        if (g_args.drop.count(i)) continue;
        for (int j = 0; j < m->nu; j++) d->ctrl[j] = r.uniform(-1, 1);
        g_scenario += std::string(" ") + calls[ci].name;
        size_t ps = d->pstack, pb = d->pbase;
        uint64_t nbad = g_nunstable; mjtNum t0 = d->time;
        bool advances = !strncmp(calls[ci].name, "mj_step", 7) || !strncmp(calls[ci].name, "mj_Euler", 8);
        bool e = ND_GUARD({ calls[ci].fn(m, d, rr); });
        if (e) { count("mju_error_in_call"); if (g_args.verbose) printf("ERR %s: %.100s\n", calls[ci].name, g_lasterr); ended = true; break; }
        // an automatic reset (like mj_resetData itself) clears the whole stack by design: inside a caller's open frame the
        // pointer is then 0, not the entry value; not counted as a violation (DESIGN.md, C19)
        mjtNum texp = t0; if (advances) texp += m->opt.timestep;
        // (simulated time is the reliable sign of a reset: the per-instance counters are cleared by it)
        if (outer && (g_nunstable != nbad || d->time != texp)) { count("autoreset_inside_caller_frame"); ended = true; break; }
        if (d->pstack != ps || d->pbase != pb) {
          // the class carries the call, so that a recorded finding covers exactly one entry point
          std::string cls = std::string("stack-not-restored:") + calls[ci].name;
          violation_or_continue(cls.c_str(), "%s returned with pstack/pbase %zu/%zu, entered with %zu/%zu (warnings of the instance: BADQPOS %d BADQVEL %d BADQACC %d)", calls[ci].name, (size_t)d->pstack, (size_t)d->pbase, ps, pb,
                                d->warning[mjWARN_BADQPOS].number, d->warning[mjWARN_BADQVEL].number, d->warning[mjWARN_BADQACC].number);
          ended = true; break;   // (tolerated finding: the instance is not usable any more)
        }
        if (d->threadlock) violation("threadlock", "%s returned with the thread lock set", calls[ci].name);
        count("api_calls_checked");
        sig = fnv(&ci, sizeof ci, sig);
      }
      if (outer && !ended) { size_t before = d->pstack; mj_freeStack(d); if (d->pstack != 0 || d->pbase != 0) violation("free-not-restored", "outer frame not restored after engine calls (pstack %zu -> %zu)", before, (size_t)d->pstack); }
      signature(sig);
      sample(g_scenario);
      mu::dispose(d);
      mj_deleteModel(m);
      end_case();
    }
    print_summary();
    return 0;
  }
  // ---------------- mode "seq"
  char err[500] = "";
  mjSpec* spec = mj_parseXMLString("<mujoco><worldbody><body><freejoint/><geom size=\"0.1\"/></body></worldbody></mujoco>", nullptr, err, sizeof err);
  mjModel* m = spec ? mj_compile(spec, nullptr) : nullptr;
  if (!m) { fprintf(stderr, "harness: model failed: %s\n", err); return 2; }
  g_m = m;
  for (uint64_t s = g_args.seed0; s < g_args.seed0 + g_args.n; s++) {
    begin_case(s);
    Rng r(s);
    static const long sizes[] = {16, 8, 64, 200, 512, 1000, 1024, 4096, 10000, 65536};
    long narena = sizes[r.below(10)];
    if (r.chance(0.3)) narena = 8 * (1 + r.below(2000));
    m->narena = narena;
    mjData* d = mj_makeData(m);
    if (!d) { end_case(); continue; }
    g_d = d;
    g_frames.clear(); g_frames.push_back(Frame{0, 0, {}}); g_arena.clear();
    int nops = r.range(4, 60);
    char sc[128]; snprintf(sc, sizeof sc, "narena=%ld nops=%d", narena, nops); g_scenario = sc;
    long before = g_ops;
    run_history(r, nops);
    if (d->pbase != 0) violation("free-not-restored", "after unwinding every frame pbase is %zu", (size_t)d->pbase);
    uint64_t sig = fnv(&narena, sizeof narena); sig = fnv(&s, sizeof s, sig);
    signature(sig);
    if (g_samples.size() < 3) { char b[160]; snprintf(b, sizeof b, "narena=%ld, %ld operations", narena, g_ops - before); sample(b); }
    d->parena = 0;
    mj_deleteData(d);
    end_case();
  }
  count("operations", g_ops);
  print_summary();
  return 0;
}
