// Shared pieces of the E3 history machines: model supply, seeded inputs, a replayable op log.
#pragma once
#include "mjutil.h"
#include "modelgen.h"

namespace hs {
using nd::Rng;

struct Supply {
  std::vector<std::string> corpus;
  double corpus_share = 0.3;
  bool allow_flex = false;
  bool vary_options = false;
  void init() { corpus = mg::load_corpus(); }
  // returns a compiled model or nullptr (skip); fills desc / blob
  mjModel* get(Rng& r, const mg::GenOpts& o, std::string* desc, bool* from_corpus = nullptr, int max_nq = 300) {
    bool use_corpus = !corpus.empty() && r.chance(corpus_share);
    if (from_corpus) *from_corpus = use_corpus;
    std::string err;
    if (use_corpus) {
      const std::string& p = corpus[r.below((int)corpus.size())];
      mjModel* m = mg::load_file(p, &err);
      *desc = "corpus:" + p;
      nd::g_blob = "model file: " + p + "\n";
      if (!m) { nd::count("model_skipped_load_failure"); return nullptr; }
      if (m->nq > max_nq || (m->nflex && !allow_flex) || m->nplugin) { nd::count("model_skipped_size_or_flex"); mj_deleteModel(m); return nullptr; }
      nd::count("models_corpus");
      if (vary_options && r.chance(0.6)) {
        // repo models mostly use default options: vary the run-time options so that their features (flex, tendons, equality
        // types, actuator kinds ...) also meet the other solvers / integrators / cones (decided by the case's own PRNG)
        static const char* sn[] = {"PGS", "CG", "Newton"}; static const char* in[] = {"Euler", "RK4", "implicit", "implicitfast"};
        bool sleep = (m->opt.enableflags & mjENBL_SLEEP) != 0;
        int so = r.below(3), ig = r.below(4), co = r.below(2);
        if (ig == 1 && sleep) ig = 0;                       // RK4 + sleep is documented unsupported
        m->opt.solver = so; m->opt.integrator = ig; m->opt.cone = co;
        if (r.chance(0.2) && !sleep) m->opt.disableflags |= mjDSBL_ISLAND;   // (sleeping needs islands)
        if (r.chance(0.2)) m->opt.disableflags |= mjDSBL_WARMSTART;
        if (r.chance(0.15)) m->opt.noslip_iterations = r.range(1, 3);
        if (r.chance(0.2)) m->opt.jacobian = r.below(3);
        *desc += std::string("[opt ") + sn[so] + "/" + in[ig] + "/" + (co ? "elliptic" : "pyramidal") + "]";
        nd::count("models_corpus_with_varied_options");
      }
      return m;
    }
    mg::Model gm = mg::generate(r, o, nd::g_args.mdrop);
    *desc = gm.summary;
    nd::g_blob = gm.xml + "\n";
    mjModel* m = mg::compile(gm.xml, &err);
    if (!m) { nd::count("model_skipped_compile_failure"); if (nd::g_args.verbose) printf("compile failure: %s\n", err.c_str()); return nullptr; }
    nd::count("models_generated");
    return m;
  }
};

// ---------------------------------------------------------------- replayable operations on an mjData
enum OpKind { O_CTRL, O_QFRC, O_XFRC, O_MOCAP, O_EQ, O_STEP, O_FORWARD, O_INVERSE, O_RESET, O_RESETKEY, O_CLEARFRC, O_NKINDS };
static const char* kOpName[] = {"ctrl", "qfrc", "xfrc", "mocap", "eq", "step", "forward", "inverse", "reset", "resetkey", "clearfrc"};
struct Op {
  int kind = 0; int n = 1;          // n: number of steps / index
  std::vector<mjtNum> v;            // values written
  std::string str() const { char b[48]; snprintf(b, sizeof b, "%s(%d)", kOpName[kind], n); return b; }
};
inline Op gen_input_op(Rng& r, const mjModel* m, int kind) {
  Op o; o.kind = kind;
  switch (kind) {
    case O_CTRL: o.v.resize(m->nu); for (auto& x : o.v) x = r.uniform(-1, 1); break;
    case O_QFRC: o.n = m->nv ? r.below(m->nv) : 0; o.v = {r.uniform(-2, 2)}; break;
    case O_XFRC: o.n = m->nbody > 1 ? r.range(1, m->nbody - 1) : 0; o.v.resize(6); for (auto& x : o.v) x = r.uniform(-1, 1); break;
    case O_MOCAP: o.n = m->nmocap ? r.below(m->nmocap) : 0; o.v = {r.uniform(-0.5, 0.5), r.uniform(-0.5, 0.5), r.uniform(0.1, 1.0)}; break;
    case O_EQ: o.n = m->neq ? r.below(m->neq) : 0; o.v = {(mjtNum)r.below(2)}; break;
    case O_STEP: o.n = r.range(1, 6); break;
    case O_RESETKEY: o.n = m->nkey ? r.below(m->nkey) : 0; break;
    default: break;
  }
  return o;
}
// apply an op; returns true if mju_error was raised
inline bool apply(const mjModel* m, mjData* d, const Op& o) {
  return ND_GUARD({
    switch (o.kind) {
      case O_CTRL: for (int i = 0; i < m->nu && i < (int)o.v.size(); i++) d->ctrl[i] = o.v[i]; break;
      case O_QFRC: if (m->nv) d->qfrc_applied[o.n] = o.v[0]; break;
      case O_XFRC: if (m->nbody > 1) for (int i = 0; i < 6; i++) d->xfrc_applied[6 * o.n + i] = o.v[i]; break;
      case O_MOCAP: if (m->nmocap) for (int i = 0; i < 3; i++) d->mocap_pos[3 * o.n + i] = o.v[i]; break;
      case O_EQ: if (m->neq) d->eq_active[o.n] = (mjtByte)o.v[0]; break;
      case O_STEP: for (int i = 0; i < o.n; i++) mj_step(m, d); break;
      case O_FORWARD: mj_forward(m, d); break;
      case O_INVERSE: mj_forward(m, d); mj_inverse(m, d); break;   // qacc is an input of mj_inverse: make it a function of the state first
      case O_RESET: mj_resetData(m, d); break;
      case O_RESETKEY: if (m->nkey) mj_resetDataKeyframe(m, d, o.n); else mj_resetData(m, d); break;
      case O_CLEARFRC: mju_zero(d->qfrc_applied, m->nv); mju_zero(d->xfrc_applied, 6 * m->nbody); break;
    }
  });
}
inline bool is_compute(int k) { return k == O_STEP || k == O_FORWARD || k == O_INVERSE; }

// Arena scratch arrays that contain entries the engine never writes (their unwritten part is whatever the
// arena held before): excluded from every comparison.  Found by giving twins differently seeded arena
// garbage on the unchanged tree; none of them is an output named by any property.
inline std::set<std::string> scratch_fields(const mjModel* m) {
  std::set<std::string> ex = {"iacc", "iacc_smooth", "iefc_aref", "iefc_force", "iefc_state", "ifrc_constraint", "ifrc_smooth"};
  ex.insert("contact.H");   // cone Hessian: solver-internal storage, written only for contacts in the cone state
  if (!mj_isSparse(m)) for (const char* s : {"efc_J_rownnz", "efc_J_rowadr", "efc_J_rowsuper", "efc_J_colind"}) ex.insert(s);   // dense Jacobian: sparse structure unused
  return ex;
}
// Buffer arrays a state-only twin may legitimately differ in: computed lazily or only under a condition, or
// written only up to a count (the rest keeps whatever the instance held before).
inline std::set<std::string> conditional_fields(const mjModel* m, bool inverse_called, bool stepped = false) {
  (void)stepped;
  std::set<std::string> ex = scratch_fields(m);
  for (const char* s : {"bvh_active", "subtree_linvel", "subtree_angmom", "cacc", "cfrc_int", "cfrc_ext",   // lazily evaluated
                        "qH", "qHDiagInv", "qDeriv", "qLU",                                              // integrator scratch (which one is used depends on the integrator)
                        "wrap_obj", "wrap_xpos", "actuator_moment", "moment_colind",                      // written up to a count only
                        "flexedge_length", "flexvert_length",                                             // computed only for flexes whose edges / vertex constraints can generate forces (mj_flex skips rigid and interpolated flexes)
                        "bvh_aabb_dyn",                                                                   // dynamic BVH boxes: refreshed only for the flexes / nodes that the collision settings need
                        "flexelem_krot"})                                                                // cache of the implicit effective metric: written only when that metric is active (mjd_effBuild), read only then
    ex.insert(s);
  if (!inverse_called) ex.insert("qfrc_inverse");
  ex.insert("warning.number");   // cumulative statistics of the instance's own history, not an output of the call
  if (!(m->opt.enableflags & mjENBL_SLEEP)) for (const char* s : {"tree_asleep", "tree_awake", "body_awake", "body_awake_ind", "parent_awake_ind", "dof_awake_ind"}) ex.insert(s);
  return ex;
}
// stack discipline (C19 cross-cutting clause): a public call returns with the stack pointer it started with
struct StackGuard {
  size_t ps, pb; const mjData* d;
  explicit StackGuard(const mjData* dd) : ps(dd->pstack), pb(dd->pbase), d(dd) {}
  bool ok() const { return d->pstack == ps && d->pbase == pb; }
};
}  // namespace hs
