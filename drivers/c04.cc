// C04: staged and split pipeline calls equal the monolithic call.
// Each rule runs the staged form on A and the monolithic form on a full copy B of A, inside a seeded
// history (so A is a "used" instance), and compares every mjData array bitwise.
#include "hist.h"

using namespace nd;
using namespace hs;

enum Rule { RU_SPLITSTEP, RU_FWDSKIP, RU_INVSKIP, RU_FWD_PURE, RU_FWD_IDEMPOTENT, RU_STEPS, RU_N };
static const char* kRule[] = {"step1+step2", "forwardSkip", "inverseSkip", "forward-keeps-state", "forward-idempotent", "steps"};

static void random_inputs(const mjModel* m, mjData* d, Rng& r, bool vel, bool acc) {
  for (int i = 0; i < m->nu; i++) if (r.chance(0.7)) d->ctrl[i] = r.uniform(-1, 1);
  if (m->nv && r.chance(0.7)) d->qfrc_applied[r.below(m->nv)] = r.uniform(-2, 2);
  if (m->nbody > 1 && r.chance(0.5)) { int b = r.range(1, m->nbody - 1); for (int k = 0; k < 6; k++) d->xfrc_applied[6 * b + k] = r.uniform(-1, 1); }
  if (m->na && r.chance(0.3)) d->act[r.below(m->na)] += r.uniform(-8, 8);   // activations are read in the acceleration stage only: an input of every stage
  if (vel) for (int i = 0; i < m->nv; i++) if (r.chance(0.3)) d->qvel[i] += r.uniform(-0.2, 0.2);
  if (acc) for (int i = 0; i < m->nv; i++) if (r.chance(0.3)) d->qacc[i] += r.uniform(-1, 1);
}

int main(int argc, char** argv) {
  setup(argc, argv, "C04");
  use_caching_alloc();
  Supply sup; sup.init(); sup.allow_flex = true; sup.vary_options = true;
  for (uint64_t s = g_args.seed0; s < g_args.seed0 + g_args.n; s++) {
    begin_case(s);
    ND_CASE_GUARD();
    Rng r(s);
    mg::GenOpts go; go.flex_chance = 0.12;
    go.allow_rk4 = true;
    std::string mdesc;
    mjModel* m = sup.get(r, go, &mdesc);
    if (!m) { end_case(); continue; }
    bool sleep = (m->opt.enableflags & mjENBL_SLEEP) != 0;
    bool rk4 = m->opt.integrator == mjINT_RK4;
    bool warm_off = (m->opt.disableflags & mjDSBL_WARMSTART) != 0;
    int nrules = r.range(3, 10);
    std::vector<int> rules;
    for (int i = 0; i < nrules; i++) { int ru = r.below(RU_N); if (!g_args.drop.count(i)) rules.push_back(ru); }
    g_scenario = mdesc + " rules:";
    for (int ru : rules) g_scenario += std::string(" ") + kRule[ru];
    mjData* A = mu::make_data(m, s * 5 + 1);
    uint64_t sig = fnv_str(mdesc);
    int checks = 0;
    bool dead = false;
    // used instance: a short seeded prefix
    dead = ND_GUARD({ for (int k = 0, n = r.range(0, 12); k < n; k++) { random_inputs(m, A, r, false, false); mj_step(m, A); } });
    std::set<std::string> scratch = scratch_fields(m);
    for (int ru : rules) {
      if (dead) break;
      mjData* B = nullptr;
      mu::Diff df;
      const char* what = kRule[ru];
      switch (ru) {
        case RU_STEPS:
          dead = ND_GUARD({ for (int k = 0, n = r.range(1, 4); k < n; k++) { random_inputs(m, A, r, false, false); mj_step(m, A); } });
          continue;
        case RU_SPLITSTEP: {
          if (rk4 || sleep) { count("splitstep_skipped_rk4_or_sleep"); continue; }   // documented: RK4 and sleeping are outside this equivalence
          B = mj_copyData(nullptr, m, A);
          uint64_t unstable0 = g_nunstable;
          mjtNum t0 = A->time;
          Rng r2 = r;   // same seeded inputs on both sides
          bool ea = ND_GUARD({ mj_step1(m, A); random_inputs(m, A, r, false, false); mj_step2(m, A); });
          bool eb = ND_GUARD({ random_inputs(m, B, r2, false, false); mj_step(m, B); });
          if (ea != eb) violation("split-mismatch", "%s: error raised on one side only: %s", what, g_lasterr);
          if (ea) { dead = true; break; }
          // an automatic reset (bad qpos/qvel/qacc) inside the step clears the inputs: in the monolithic form the
          // inputs were set before it, in the split form after it - the equivalence is about steps without a reset
          // (the per-instance warning counters cannot tell: a reset clears them and re-adds one; the warning callback fires only
          // for the first warning of an instance; simulated time is reliable: a step without a reset advances it by exactly one timestep)
          mjtNum texp = t0; texp += m->opt.timestep;
          if (g_nunstable != unstable0 || A->time != texp || B->time != texp) {
            count("splitstep_skipped_autoreset"); mj_deleteData(B); continue;
          }
          df = mu::compare(m, A, B, scratch);
          break;
        }
        case RU_FWDSKIP: {
          int stage = r.chance(0.5) ? mjSTAGE_POS : mjSTAGE_VEL;
          int skipsensor = r.chance(0.2);
          bool ea = ND_GUARD({ mj_forward(m, A); });
          if (ea) { dead = true; break; }
          // with sleeping enabled the position stage also decides waking from velocities and applied forces, so for
          // such models every input counts as a position-stage input and is left unchanged
          if (!sleep) random_inputs(m, A, r, stage == mjSTAGE_POS, false);
          B = mj_copyData(nullptr, m, A);
          // stale lazy flags on the side that runs the full pipeline must not matter
          B->flg_energypos = B->flg_energyvel = B->flg_subtreevel = B->flg_rnepost = 1;
          ea = ND_GUARD({ mj_forwardSkip(m, A, stage, skipsensor); });
          bool eb = ND_GUARD({ mj_forwardSkip(m, B, mjSTAGE_NONE, skipsensor); });
          if (ea != eb) violation("skip-mismatch", "%s(stage %d): error raised on one side only: %s", what, stage, g_lasterr);
          if (ea) { dead = true; break; }
          std::set<std::string> ex = scratch;
          ex.insert("warning.number");   // cumulative counters: the full pipeline repeats the skipped stages' warnings (e.g. a full constraint buffer), the skipping call does not
          df = mu::compare(m, A, B, ex);
          what = stage == mjSTAGE_POS ? "forwardSkip(POS)" : "forwardSkip(VEL)";
          break;
        }
        case RU_INVSKIP: {
          int stage = r.chance(0.5) ? mjSTAGE_POS : mjSTAGE_VEL;
          bool ea = ND_GUARD({ mj_forward(m, A); mj_inverse(m, A); });
          if (ea) { dead = true; break; }
          if (!sleep) random_inputs(m, A, r, stage == mjSTAGE_POS, true);
          B = mj_copyData(nullptr, m, A);
          B->flg_energypos = B->flg_energyvel = B->flg_subtreevel = B->flg_rnepost = 1;
          ea = ND_GUARD({ mj_inverseSkip(m, A, stage, 0); });
          bool eb = ND_GUARD({ mj_inverse(m, B); });
          if (ea != eb) violation("skip-mismatch", "%s(stage %d): error raised on one side only: %s", what, stage, g_lasterr);
          if (ea) { dead = true; break; }
          { std::set<std::string> ex = scratch; ex.insert("warning.number"); df = mu::compare(m, A, B, ex); }
          what = stage == mjSTAGE_POS ? "inverseSkip(POS)" : "inverseSkip(VEL)";
          break;
        }
        case RU_FWD_PURE: {
          std::vector<mjtNum> before = mu::get_state(m, A, mjSTATE_INTEGRATION);
          bool ea = ND_GUARD({ mj_forward(m, A); });
          if (ea) { dead = true; break; }
          std::vector<mjtNum> after = mu::get_state(m, A, mjSTATE_INTEGRATION);
          if (before.size() != after.size() || memcmp(before.data(), after.data(), before.size() * sizeof(mjtNum))) {
            size_t i = 0; while (i < before.size() && !memcmp(&before[i], &after[i], sizeof(mjtNum))) i++;
            violation("forward-changed-state", "mj_forward changed integration-state slot %zu of %zu (%.17g -> %.17g)", i, before.size(), before[i], after[i]);
          }
          checks++; count("comparisons"); sig = fnv(&ru, sizeof ru, sig);
          continue;
        }
        case RU_FWD_IDEMPOTENT: {
          if (!warm_off) { count("idempotence_skipped_warmstart_on"); continue; }
          bool ea = ND_GUARD({ mj_forward(m, A); });
          if (ea) { dead = true; break; }
          B = mj_copyData(nullptr, m, A);
          ea = ND_GUARD({ mj_forward(m, A); });
          if (ea) { dead = true; break; }
          std::set<std::string> ex = scratch;
          ex.insert("warning.number");   // cumulative counters (e.g. a constraint buffer that is full at every call): statistics of the history, not an output
          df = mu::compare(m, A, B, ex);
          break;
        }
      }
      if (B) mj_deleteData(B);
      if (dead) break;
      checks++; count("comparisons"); count((std::string("rule_") + kRule[ru]).c_str());
      sig = fnv(&ru, sizeof ru, sig);
      if (df.differs)
        violation(ru == RU_SPLITSTEP ? "split-mismatch" : ru == RU_FWD_IDEMPOTENT ? "not-idempotent" : "skip-mismatch",
                  "%s differs from the monolithic call in %s[%ld] (%s); integrator=%d sleep=%d ncon=%d nefc=%d", what, df.field.c_str(), df.index, df.detail.c_str(), m->opt.integrator, (int)sleep,
                  A->ncon, A->nefc);
    }
    if (dead) count("histories_ended_by_mju_error");
    if (checks) { signature(sig); sample(g_scenario); }
    mj_deleteData(A);
    mj_deleteModel(m);
    end_case();
  }
  print_summary();
  return 0;
}
