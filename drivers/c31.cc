// C31: binary model files round-trip exactly; corrupt files are rejected (fault enumeration).
// Seams: a registered resource provider ("simdisk:") that keeps files in memory and injects torn / short /
// failed / lost writes and short reads; exact-size heap buffers for truncation and corruption (ASan sees any
// read outside); the public allocator hooks for "no partially built model is leaked" and the allocation cap.
#include <unordered_map>

#include "hist.h"

using namespace nd;

// ------------------------------------------------------------------ tracking allocator with a cap
static std::unordered_map<void*, size_t> g_live;
static size_t g_cap = (size_t)256 << 20;
static long g_capped = 0;
static void* t_malloc(size_t sz) {
  if (sz > g_cap) { g_capped++; return nullptr; }   // a corrupted size field must not make the check allocate gigabytes
  void* p = aligned_alloc(64, (sz + 63) & ~(size_t)63);
  if (p) g_live[p] = sz;
  return p;
}
static void t_free(void* p) {
  if (!p) return;                                  // free(NULL) is legal
  auto it = g_live.find(p);
  if (it == g_live.end()) violation("bad-free", "mju_free of a block that is not live (double free or foreign pointer)");
  g_live.erase(it);
  free(p);
}

// ------------------------------------------------------------------ simulated disk
struct SimFile { std::vector<char> bytes; };
static std::map<std::string, SimFile> g_disk;
enum WFault { WF_NONE, WF_TORN, WF_SHORT, WF_ENOSPC, WF_LOST };
static int g_wfault = WF_NONE; static long g_wlen = 0; static long g_writes = 0;
static int g_rshort = -1;
static int sd_open(mjResource* r) { return g_disk.count(r->name) ? 1 : 0; }
static int sd_read(mjResource* r, const void** buf) {
  auto& f = g_disk[r->name];
  *buf = f.bytes.data();
  int n = (int)f.bytes.size();
  if (g_rshort >= 0 && g_rshort < n) n = g_rshort;     // short read
  return n;
}
static void sd_close(mjResource*) {}
static mjtSize sd_write(mjResource* r, const void* buf, mjtSize n) {
  g_writes++;
  const char* b = (const char*)buf;
  switch (g_wfault) {
    case WF_NONE: g_disk[r->name].bytes.assign(b, b + n); return n;
    case WF_TORN: g_disk[r->name].bytes.assign(b, b + std::min<long>(g_wlen, n)); return n;          // crash after reporting success: only a prefix is durable
    case WF_SHORT: g_disk[r->name].bytes.assign(b, b + std::min<long>(g_wlen, n)); return std::min<long>(g_wlen, n);
    case WF_ENOSPC: return -1;
    case WF_LOST: return n;                                                                        // acknowledged, never persisted: old content stays
  }
  return -1;
}

// ------------------------------------------------------------------ file layout and the bounds table
struct Arr { std::string name; size_t off, elsize; long n; bool isint; };
static std::vector<Arr> layout(const mjModel* m, size_t* sizes_off, size_t* structs_off, size_t* total) {
  std::vector<Arr> v;
  size_t off = 5 * sizeof(int);
  *sizes_off = off;
#define X(name) off += sizeof(m->name);
  MJMODEL_SIZES
#undef X
  *structs_off = off;
  off += sizeof(mjOption) + sizeof(mjVisual) + sizeof(mjStatistic);
  {
    // the scalar flags written after the structs (flg_*): their number is the file's own business, so it is taken from the length
    // the engine declares minus everything else (a wrong declared length still shows as a save overrun / load mismatch below)
    size_t arrays = 0;
    MJMODEL_POINTERS_PREAMBLE(m)
#define XNV X
#define X(type, name, nr, nc) arrays += sizeof(type) * (size_t)((long)(m->nr) * (nc));
    MJMODEL_POINTERS
#undef X
#undef XNV
    size_t declared = (size_t)mj_sizeModel(m);
    if (declared >= off + arrays && declared - off - arrays <= 64) off = declared - arrays;
  }
  {
    MJMODEL_POINTERS_PREAMBLE(m)
#define XNV X
#define X(type, name, nr, nc) { long n = (long)(m->nr) * (nc); v.push_back(Arr{#name, off, sizeof(type), n, std::is_same<type, int>::value}); off += sizeof(type) * n; }
    MJMODEL_POINTERS
#undef X
#undef XNV
  }
  *total = off;
  return v;
}
// cross-reference fields and their legal range [lo, hi) - written from the comments in mjmodel.h, independently
// of the engine's own validation
struct Bound { const char* field; long lo; long (*hi)(const mjModel*); bool adr = false;       // adr: start address of a possibly empty range, value == hi is legal
               long (*width)(const mjModel*, long) = nullptr; };                                // width: number of target slots element i occupies from its address (value + width <= hi)
#define WD(expr) [](const mjModel* m, long i) -> long { return (long)(expr); }
static long qpos_width(const mjModel* m, long i) { int t = m->jnt_type[i]; return t == mjJNT_FREE ? 7 : t == mjJNT_BALL ? 4 : 1; }
static long dof_width(const mjModel* m, long i) { int t = m->jnt_type[i]; return t == mjJNT_FREE ? 6 : t == mjJNT_BALL ? 3 : 1; }
// legal value of element i of a table field
static bool legal_ref(const Bound& b, const mjModel* m, long i, long v) {
  long hi = b.hi(m);
  if (b.width) { if (v == -1 && b.lo == -1) return true; long w = b.width(m, i); return v >= 0 && v + w <= hi; }
  return v >= b.lo && v < hi + (b.adr ? 1 : 0);
}
#define HI(expr) [](const mjModel* m) -> long { return (long)(expr); }
static const Bound kBounds[] = {
    {"body_parentid", 0, HI(m->nbody)}, {"body_rootid", 0, HI(m->nbody)}, {"body_weldid", 0, HI(m->nbody)}, {"body_mocapid", -1, HI(m->nmocap)},
    {"body_jntadr", -1, HI(m->njnt), true, WD(m->body_jntnum[i])}, {"body_dofadr", -1, HI(m->nv), true, WD(m->body_dofnum[i])}, {"body_geomadr", -1, HI(m->ngeom), true, WD(m->body_geomnum[i])},
    {"body_treeid", -1, HI(m->ntree)},
    {"jnt_qposadr", 0, HI(m->nq), false, qpos_width}, {"jnt_dofadr", 0, HI(m->nv), false, dof_width}, {"jnt_bodyid", 0, HI(m->nbody)},
    {"dof_bodyid", 0, HI(m->nbody)}, {"dof_jntid", 0, HI(m->njnt)}, {"dof_parentid", -1, HI(m->nv)}, {"dof_treeid", 0, HI(m->ntree)},
    {"geom_bodyid", 0, HI(m->nbody)}, {"geom_matid", -1, HI(m->nmat)}, {"site_bodyid", 0, HI(m->nbody)}, {"site_matid", -1, HI(m->nmat)},
    {"cam_bodyid", 0, HI(m->nbody)}, {"cam_targetbodyid", -1, HI(m->nbody)}, {"light_bodyid", 0, HI(m->nbody)}, {"light_targetbodyid", -1, HI(m->nbody)},
    {"pair_geom1", 0, HI(m->ngeom)}, {"pair_geom2", 0, HI(m->ngeom)},
    {"tendon_adr", 0, HI(m->nwrap), true, WD(m->tendon_num[i])}, {"tendon_matid", -1, HI(m->nmat)},
    {"sensor_adr", 0, HI(m->nsensordata), true, WD(m->sensor_dim[i])},
    {"name_bodyadr", 0, HI(m->nnames)}, {"name_jntadr", 0, HI(m->nnames)}, {"name_geomadr", 0, HI(m->nnames)}, {"name_siteadr", 0, HI(m->nnames)},
    {"name_actuatoradr", 0, HI(m->nnames)}, {"name_sensoradr", 0, HI(m->nnames)}, {"name_tendonadr", 0, HI(m->nnames)}, {"name_eqadr", 0, HI(m->nnames)},
    {"key_time", 0, nullptr},
};
static const int* int_field(const mjModel* m, const char* name, long* n) {
  {
    MJMODEL_POINTERS_PREAMBLE(m)
#define XNV X
#define X(type, fname, nr, nc) if (std::is_same<type, int>::value && !strcmp(#fname, name)) { *n = (long)(m->nr) * (nc); return (const int*)m->fname; }
    MJMODEL_POINTERS
#undef X
#undef XNV
  }
  *n = 0;
  return nullptr;
}
static void check_bounds(const mjModel* m, const char* how) {
  for (auto& b : kBounds) {
    if (!b.hi) continue;
    long n = 0;
    const int* p = int_field(m, b.field, &n);
    if (!p) continue;
    long hi = b.hi(m) + (b.adr ? 1 : 0);
    for (long i = 0; i < n; i++) if (!legal_ref(b, m, i, p[i])) {
      if (p[i] == -1 && b.lo == 0) { violation_or_continue("accepted-minus-one-reference", "%s: accepted model has %s[%ld]=-1", how, b.field, i); break; }
      std::string cls = std::string("out-of-bounds-reference:") + b.field;
      violation_or_continue(cls.c_str(), "%s: accepted model has %s[%ld]=%d outside [%ld,%ld)", how, b.field, i, p[i], b.lo, hi);
      break;
    }
  }
}
// load from an exact-size heap copy of `bytes` (ASan sees any read outside); returns model or NULL; classifies outcome
static mjModel* load_exact(const std::vector<char>& bytes, bool* raised) {
  char* buf = (char*)malloc(bytes.size() ? bytes.size() : 1);
  memcpy(buf, bytes.data(), bytes.size());
  mjModel* m = nullptr;
  *raised = ND_GUARD({ m = mj_loadModelBuffer(buf, (int)bytes.size()); });
  free(buf);
  // the statement allows exactly two outcomes for a damaged file: "rejected with a warning and a NULL result" or an in-bounds
  // model.  mju_error terminates the process by default, so an error is accepted only when it is the harness's own injected
  // fault (the allocation cap refusing a corrupted size); any other error raised by the loader is reported.
  if (*raised && !strstr(g_lasterr, "allocate")) {
    count("load_raised_non_allocation_error");
    violation_or_continue("load-raised-error", "mj_loadModelBuffer raised mju_error instead of rejecting the file with a warning: %s", g_lasterr);
  }
  return m;
}

// blocks left behind by a rejected load.  When the rejection is the allocator refusing a (corrupted, huge) size, the
// struct allocated just before is the leak already recorded under C21 (mju_malloc raises inside itself): not re-reported here.
static long g_capped_seen = 0;
static std::string g_leakdesc;
static std::set<void*> g_base;   // blocks that belong to the case's own model
static bool leaked_after_rejection(size_t* live0) {
  if (g_live.size() == *live0) return false;
  bool refused = g_capped != g_capped_seen;
  g_capped_seen = g_capped;
  g_leakdesc.clear();
  for (auto it = g_live.begin(); it != g_live.end();) { if (!g_base.count(it->first)) { g_leakdesc += " " + std::to_string(it->second); free(it->first); it = g_live.erase(it); } else ++it; }
  g_leakdesc = "leaked block sizes:" + g_leakdesc + "; last warning: " + g_lastwarn + "; last error: " + g_lasterr;
  *live0 = g_live.size();
  if (refused) { count("leaks_after_refused_allocation_(C21_finding)"); return false; }
  return true;
}

int main(int argc, char** argv) {
  setup(argc, argv, "C31");
  mju_user_malloc = t_malloc; mju_user_free = t_free;
  hs::Supply sup; sup.init();
  mjpResourceProvider prov; mjp_defaultResourceProvider(&prov);
  prov.prefix = "simdisk"; prov.open = sd_open; prov.read = sd_read; prov.close = sd_close; prov.write = sd_write;
  if (mjp_registerResourceProvider(&prov) < 1) { fprintf(stderr, "harness: cannot register the simulated disk\n"); return 2; }
  long max_trunc = opt_long("maxtrunc", 4000), max_corrupt = opt_long("maxcorrupt", 3000);
  for (uint64_t s = g_args.seed0; s < g_args.seed0 + g_args.n; s++) {
    begin_case(s);
    ND_CASE_GUARD();
    Rng r(s);
    mg::GenOpts go; go.min_trees = 1; go.max_trees = 4; go.flex_chance = 0.15;
    std::string mdesc;
    mjModel* m = sup.get(r, go, &mdesc, nullptr, 150);
    if (!m) { end_case(); continue; }
    g_scenario = mdesc;
    // every faulted load copies the whole file into an exact-size block: keep files below 1 MiB (big mesh / height-field models
    // would spend minutes in memcpy without adding a new kind of field)
    if (mj_sizeModel(m) > (1 << 20)) { count("model_skipped_file_over_1MiB"); mj_deleteModel(m); end_case(); continue; }
    // cap per case: no legitimate (re)load of this model needs more than a small multiple of its own size
    g_cap = std::max<size_t>((size_t)4 << 20, 16 * (size_t)mj_sizeModel(m));
    size_t live0 = g_live.size();
    g_base.clear();
    for (auto& [p, n] : g_live) g_base.insert(p);
    // ---------------- round trip through a buffer
    mjtSize sz = mj_sizeModel(m);
    std::vector<char> bytes((size_t)sz + 16, (char)0xA5);
    mj_saveModel(m, nullptr, bytes.data(), (int)sz);
    for (int i = 0; i < 16; i++) if (bytes[sz + i] != (char)0xA5) violation("save-overrun", "mj_saveModel wrote past mj_sizeModel()=%lld bytes", (long long)sz);
    bytes.resize((size_t)sz);
    size_t sizes_off, structs_off, total;
    std::vector<Arr> lay = layout(m, &sizes_off, &structs_off, &total);
    if (total != (size_t)sz) violation("size-mismatch", "mj_sizeModel()=%lld but header+sizes+structs+arrays add up to %zu", (long long)sz, total);
    bool raised = false;
    mjModel* m2 = load_exact(bytes, &raised);
    if (raised || !m2) violation("roundtrip-rejected", "a freshly saved model was rejected on load: %s", raised ? g_lasterr : g_lastwarn);
    if (mj_sizeModel(m2) != sz) violation("roundtrip-mismatch", "size after load %lld != %lld", (long long)mj_sizeModel(m2), (long long)sz);
    std::vector<char> bytes2((size_t)sz, 0);
    mj_saveModel(m2, nullptr, bytes2.data(), (int)sz);
    if (memcmp(bytes.data(), bytes2.data(), (size_t)sz)) { size_t i = 0; while (bytes[i] == bytes2[i]) i++; violation("roundtrip-mismatch", "save(load(save(m))) differs from save(m) at byte %zu of %lld", i, (long long)sz); }
    check_bounds(m2, "round trip");
    // what the file does not carry is invisible to the byte comparison: the scalar members of mjModel that are neither sizes nor
    // structs are compared one by one ...
    if (m2->flg_gravcomp != m->flg_gravcomp) violation("roundtrip-mismatch", "flg_gravcomp is %d after save and load, was %d", (int)m2->flg_gravcomp, (int)m->flg_gravcomp);
    if (m2->flg_surfacevel != m->flg_surfacevel) violation("roundtrip-mismatch", "flg_surfacevel is %d after save and load, was %d", (int)m2->flg_surfacevel, (int)m->flg_surfacevel);
    if (m2->flg_adhesion != m->flg_adhesion) violation("roundtrip-mismatch", "flg_adhesion is %d after save and load, was %d", (int)m2->flg_adhesion, (int)m->flg_adhesion);
    // ... and the loaded model must simulate exactly like the original (same seeded history on both, every mjData array compared)
    if (!m->nplugin && opt_long("nosim", 0) == 0) {
      size_t cap0 = g_cap; g_cap = (size_t)1 << 40;   // the cap is for loads of corrupted files, not for the simulation's own mjData
      mjData* da = mu::make_data(m, s + 11); mjData* db = mu::make_data(m2, s + 11);
      Rng rs(s ^ 0x51ED270BULL);
      int nst = rs.range(3, 12);
      bool ea = false, eb = false;
      for (int k = 0; k < nst && !ea && !eb; k++) {
        for (int i = 0; i < m->nu; i++) da->ctrl[i] = db->ctrl[i] = rs.uniform(-1, 1);
        ea = ND_GUARD({ mj_step(m, da); }); eb = ND_GUARD({ mj_step(m2, db); });
      }
      if (ea != eb) violation("roundtrip-behaviour", "mj_step raised an error with %s only: %s", ea ? "the original model" : "the loaded model", g_lasterr);
      if (!ea) {
        mu::Diff df = mu::compare(m, da, db, hs::scratch_fields(m));
        if (df.differs) violation("roundtrip-behaviour", "after %d steps the loaded model's simulation differs from the original's in %s[%ld] (%s)", nst, df.field.c_str(), df.index, df.detail.c_str());
        count("roundtrip_simulation_comparisons");
      }
      mj_deleteData(da); mj_deleteData(db);
      g_cap = cap0;
    }
    mj_deleteModel(m2);
    count("roundtrips");
    // ---------------- round trip and write faults through the simulated disk
    {
      g_wfault = WF_NONE; g_disk.clear(); g_writes = 0;
      uint64_t w0 = g_nwarn;
      bool e = ND_GUARD({ mj_saveModel(m, "simdisk:model.mjb", nullptr, 0); });
      if (e || g_writes != 1 || g_disk["simdisk:model.mjb"].bytes.size() != (size_t)sz || memcmp(g_disk["simdisk:model.mjb"].bytes.data(), bytes.data(), sz))
        violation("disk-roundtrip", "saving through the resource provider produced %zu bytes in %ld write(s), expected %lld identical bytes", g_disk["simdisk:model.mjb"].bytes.size(), g_writes, (long long)sz);
      if (g_nwarn != w0) violation("disk-roundtrip", "a successful save raised a warning: %s", g_lastwarn);
      mjModel* md = nullptr;
      e = ND_GUARD({ md = mj_loadModel("simdisk:model.mjb", nullptr); });
      if (e || !md) violation("disk-roundtrip", "loading the saved file through the provider failed: %s", e ? g_lasterr : g_lastwarn);
      mj_saveModel(md, nullptr, bytes2.data(), (int)sz);
      if (memcmp(bytes.data(), bytes2.data(), sz)) violation("disk-roundtrip", "model loaded from the simulated disk differs from the original");
      mj_deleteModel(md);
      // short write and ENOSPC must be reported (warning), never claimed as success
      for (int wf : {WF_SHORT, WF_ENOSPC}) {
        g_wfault = wf; g_wlen = r.below((int)sz); w0 = g_nwarn;
        e = ND_GUARD({ mj_saveModel(m, "simdisk:faulty.mjb", nullptr, 0); });
        if (!e && g_nwarn == w0) violation("write-error-ignored", "the provider reported a %s but mj_saveModel raised neither a warning nor an error", wf == WF_SHORT ? "short write" : "write error");
        count(wf == WF_SHORT ? "fault_short_write" : "fault_enospc");
      }
      // torn write (crash after the call): whatever prefix is durable must be rejected or be a valid model on reload
      g_wfault = WF_TORN; g_wlen = r.below((int)sz);
      ND_GUARD({ mj_saveModel(m, "simdisk:torn.mjb", nullptr, 0); });
      g_wfault = WF_NONE;
      mjModel* mt = nullptr; w0 = g_nwarn;
      e = ND_GUARD({ mt = mj_loadModel("simdisk:torn.mjb", nullptr); });
      if (mt) { check_bounds(mt, "torn write"); mj_deleteModel(mt); if (g_wlen < (long)sz) violation("truncation-accepted", "a file torn at %ld of %lld bytes was accepted", g_wlen, (long long)sz); }
      else if (!e && g_nwarn == w0) violation("silent-rejection", "torn file rejected without a warning");
      count("fault_torn_write");
      // lost write: the old file stays intact
      g_wfault = WF_LOST; ND_GUARD({ mj_saveModel(m, "simdisk:model.mjb", nullptr, 0); }); g_wfault = WF_NONE;
      if (g_disk["simdisk:model.mjb"].bytes.size() != (size_t)sz) violation("disk-roundtrip", "lost write damaged the previous file");
      count("fault_lost_write");
      // short read
      g_rshort = r.below((int)sz); w0 = g_nwarn;
      mjModel* ms = nullptr;
      e = ND_GUARD({ ms = mj_loadModel("simdisk:model.mjb", nullptr); });
      g_rshort = -1;
      if (ms) { mj_deleteModel(ms); violation("truncation-accepted", "a short read was accepted as a complete model"); }
      if (!e && g_nwarn == w0) violation("silent-rejection", "short read rejected without a warning");
      count("fault_short_read");
    }
    // ---------------- the operating system's files (default provider): a path that already holds a longer file is overwritten by a shorter
    // model - the result must load and equal the model just saved (nothing of the old file may survive), and the other way round
    {
      static std::vector<char> prev_bytes;     // the previous case's saved model
      static mjModel* prev_model = nullptr;
      if (prev_model && mj_sizeModel(prev_model) != sz) {
        char path[600]; snprintf(path, sizeof path, "%s/c31_reuse_%llu.mjb", g_args.faildir.empty() ? "/tmp" : g_args.faildir.c_str(), (unsigned long long)g_args.seed0);
        const mjModel* order[2] = {mj_sizeModel(prev_model) > sz ? prev_model : m, mj_sizeModel(prev_model) > sz ? m : prev_model};   // longer first, then shorter over it
        if (r.chance(0.3)) std::swap(order[0], order[1]);
        for (int k = 0; k < 2; k++) {
          uint64_t w0 = g_nwarn;
          bool e = ND_GUARD({ mj_saveModel(order[k], path, nullptr, 0); });
          if (e || g_nwarn != w0) { count("os_file_save_failed"); break; }     // (no writable directory: nothing to judge)
          mjModel* ml = nullptr;
          e = ND_GUARD({ ml = mj_loadModel(path, nullptr); });
          if (e || !ml) violation("file-reuse", "a model saved over an existing %s file at the same path does not load: %s", k ? "(different-size)" : "(absent or older)", e ? g_lasterr : g_lastwarn);
          std::vector<char> want((size_t)mj_sizeModel(order[k])), got((size_t)mj_sizeModel(ml));
          mj_saveModel(order[k], nullptr, want.data(), (int)want.size()); mj_saveModel(ml, nullptr, got.data(), (int)got.size());
          if (want != got) violation("file-reuse", "the model loaded from a re-used path differs from the model saved there");
          mj_deleteModel(ml);
          count("os_file_overwrites");
        }
        unlink(path);
      }
      // (the kept copy lives outside the tracking allocator: it must not look like a leak to the fault sweeps below)
      { auto um = mju_user_malloc; auto uf = mju_user_free; mju_user_malloc = nullptr; mju_user_free = nullptr;
        if (prev_model) mj_deleteModel(prev_model);
        prev_model = mj_copyModel(nullptr, m);
        mju_user_malloc = um; mju_user_free = uf; }
    }
    // ---------------- crash points: every truncation length (or boundaries + sample)
    {
      std::vector<long> lens;
      if (sz <= max_trunc) for (long L = 0; L < sz; L++) lens.push_back(L);
      else {
        for (long L = 0; L < 600 && L < sz; L++) lens.push_back(L);
        for (auto& a : lay) for (long d = -1; d <= 1; d++) { long L = (long)a.off + d; if (L >= 0 && L < sz) lens.push_back(L); }
        for (long k = 0; k < max_trunc - 1200; k++) lens.push_back(r.below((int)sz));
        for (long L = sz - 64; L < sz; L++) if (L >= 0) lens.push_back(L);
      }
      for (long L : lens) {
        std::vector<char> t(bytes.begin(), bytes.begin() + L);
        char sc[48]; snprintf(sc, sizeof sc, " truncate@%ld/%lld", L, (long long)sz); g_scenario = mdesc + sc;
        uint64_t w0 = g_nwarn;
        mjModel* mt = load_exact(t, &raised);
        count("faulted_executions"); count("truncations");
        if (mt) { mj_deleteModel(mt); violation("truncation-accepted", "file truncated to %ld of %lld bytes was accepted", L, (long long)sz); }
        if (!raised && g_nwarn == w0) violation("silent-rejection", "truncation at %ld rejected without a warning", L);
        if (leaked_after_rejection(&live0)) violation_or_continue("leak-on-rejection:truncated", "rejecting a file truncated to %ld of %lld bytes left blocks allocated (sizes region ends at %zu, structs at %zu)", L, (long long)sz, structs_off, structs_off + sizeof(mjOption) + sizeof(mjVisual) + sizeof(mjStatistic) + 2);
      }
      if (sz <= max_trunc) count("models_with_every_truncation_length");
    }
    // ---------------- corruption at rest
    {
      long budget = max_corrupt;
      // (1) single-byte substitutions over header + sizes
      static const int subs[] = {0x00, 0xFF, 0x7F, 0x80, 1, -1};
      size_t region = structs_off;
      std::vector<std::pair<size_t, int>> muts;
      for (size_t i = 0; i < region; i++) for (int k = 0; k < 6; k++) muts.push_back({i, k});
      if ((long)muts.size() > budget / 2) { for (size_t i = muts.size() - 1; i > 0; i--) std::swap(muts[i], muts[r.below((int)i + 1)]); muts.resize(budget / 2); }
      for (auto [pos, k] : muts) {
        std::vector<char> c = bytes;
        char old = c[pos];
        c[pos] = k < 4 ? (char)subs[k] : (char)(old + subs[k]);
        if (c[pos] == old) continue;
        char sc[64]; snprintf(sc, sizeof sc, " byte@%zu=%02x", pos, (unsigned char)c[pos]); g_scenario = mdesc + sc;
        uint64_t w0 = g_nwarn;
        mjModel* mc = load_exact(c, &raised);
        count("faulted_executions"); count("byte_corruptions");
        if (mc) { check_bounds(mc, g_scenario.c_str()); mj_deleteModel(mc); count("corruptions_accepted_in_bounds"); }
        else { count(raised ? "corruptions_rejected_by_error" : "corruptions_rejected_by_warning"); if (!raised && g_nwarn == w0) violation("silent-rejection", "corrupted header/size byte %zu rejected without a warning", pos); }
        if (leaked_after_rejection(&live0)) violation_or_continue("leak-on-rejection:corrupt-size", "rejecting a file with byte %zu corrupted left blocks allocated (%s)", pos, g_leakdesc.c_str());
      }
      // (2) every cross-reference field: illegal and boundary values
      for (auto& b : kBounds) {
        if (!b.hi) continue;
        const Arr* a = nullptr;
        for (auto& x : lay) if (x.name == b.field) a = &x;
        if (!a || !a->n || !a->isint) continue;
        long hi = b.hi(m) + (b.adr ? 1 : 0);
        for (int vi = 0; vi < 10; vi++) {
          long idx = r.below((int)a->n);
          long w = b.width ? b.width(m, idx) : 1;
          // below / above the range, extremes, the last legal and the first illegal value for THIS element (address + width)
          const long vals[] = {b.lo - 1, b.lo - 2, hi, hi + 1, 2147483647L, -2147483647L - 1, hi - 1, b.lo, b.hi(m) - w, b.hi(m) - w + 1};
          std::vector<char> c = bytes;
          int v = (int)vals[vi];
          memcpy(c.data() + a->off + idx * 4, &v, 4);
          char sc[96]; snprintf(sc, sizeof sc, " %s[%ld]=%d", b.field, idx, v); g_scenario = mdesc + sc;
          uint64_t w0 = g_nwarn;
          mjModel* mc = load_exact(c, &raised);
          count("faulted_executions"); count("field_corruptions");
          bool illegal = !legal_ref(b, m, idx, v);
          if (mc && v == -1 && b.lo == 0) {
            // -1 means "none" only in some fields; the loader accepts it everywhere (recorded finding)
            mj_deleteModel(mc);
            violation_or_continue("accepted-minus-one-reference", "file with %s[%ld]=-1 was accepted although -1 is not a legal value of this field (legal range [0,%ld))", b.field, idx, hi);
            mc = nullptr;
          }
          else if (mc) {
            mj_deleteModel(mc);
            if (illegal) { std::string cls = std::string("out-of-bounds-reference:") + b.field; violation_or_continue(cls.c_str(), "file with %s[%ld]=%d (legal range [%ld,%ld)) was accepted", b.field, idx, v, b.lo, hi); }
          }
          else if (!raised && g_nwarn == w0) violation("silent-rejection", "corrupted %s rejected without a warning", b.field);
          else if (illegal) count("illegal_references_rejected");
          if (leaked_after_rejection(&live0)) violation_or_continue("leak-on-rejection:corrupt-field", "rejecting a file with %s corrupted left blocks allocated (%s)", b.field, g_leakdesc.c_str());
        }
      }
      // (3) seeded multi-byte bursts anywhere
      for (int k = 0; k < 40; k++) {
        std::vector<char> c = bytes;
        size_t pos = (size_t)r.below((int)sz); int len = r.range(1, 16);
        for (int j = 0; j < len && pos + j < (size_t)sz; j++) c[pos + j] = (char)r.below(256);
        char sc[64]; snprintf(sc, sizeof sc, " burst@%zu+%d", pos, len); g_scenario = mdesc + sc;
        mjModel* mc = load_exact(c, &raised);
        count("faulted_executions"); count("burst_corruptions");
        if (mc) { check_bounds(mc, g_scenario.c_str()); mj_deleteModel(mc); }
        if (leaked_after_rejection(&live0)) violation_or_continue("leak-on-rejection:burst", "rejecting a burst-corrupted file left blocks allocated (%s)", g_leakdesc.c_str());
      }
    }
    g_scenario = mdesc;
    signature(fnv_str(mdesc, (uint64_t)sz));
    { char b[200]; snprintf(b, sizeof b, "%s: %lld bytes, %zu arrays", mdesc.c_str(), (long long)sz, lay.size()); sample(b); }
    mj_deleteModel(m);
    end_case();
  }
  count("allocations_refused_by_cap", g_capped);
  print_summary();
  return 0;
}
