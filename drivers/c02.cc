// C02: multithreaded stepping is bit-identical to single-threaded.
// System under test: the whole engine (unmodified) in the sim / simtsan variant: the real solveIslandTask,
// collisionTask (and tactileTask when reachable) run on simulated pool workers under a seeded scheduler;
// d->pstack reservations go through the simulated __atomic_fetch_add.
// Oracle: a twin mjData WITHOUT a pool receives the same calls; after every computing call every mjData
// array, arena array and scalar must be bit-equal (named-field comparison of contacts).  Both twins start
// with differently seeded arena garbage, so a read of uninitialised stack/arena memory shows as a difference.
#include "simdrv.h"
#include "hist.h"

using nd::Rng;
using namespace hs;

static const char* kFam[] = {"cluster-groups", "dense-cluster", "forest", "corpus", "tactile", "field"};
enum { F_GROUPS, F_CLUSTER, F_FOREST, F_CORPUS, F_TACTILE, F_FIELD };

// a pad with a tactile sensor of >= 1000 taxels (builtin plate mesh) touched by a few small bodies: the sensor stage
// dispatches taxel batches to the pool (engine_sensor.c: tactileTask)
static std::string tactile_xml(Rng& r, int* ntaxel) {
  auto f = [](double v) { char b[40]; snprintf(b, sizeof b, "%.4g", v); return std::string(b); };
  int rx = r.range(32, 40), ry = r.range(32, 40);
  static const char* solv[] = {"PGS", "CG", "Newton"};
  std::string x = "<mujoco model=\"tactile\"><compiler usethread=\"false\"/><option timestep=\"0.004\" solver=\"" + std::string(solv[r.below(3)]) + "\" cone=\"" + (r.chance(0.5) ? "elliptic" : "pyramidal") + "\"/>"
                  "<size memory=\"32M\"/><asset><mesh name=\"pad\" builtin=\"plate\" params=\"" + std::to_string(rx) + " " + std::to_string(ry) + "\" scale=\"0.3 0.3 0.05\"/></asset><worldbody>"
                  "<geom name=\"floor\" type=\"plane\" size=\"3 3 .1\"/><body name=\"finger\" pos=\"0 0 " + f(r.uniform(0.04, 0.07)) + "\">" + (r.chance(0.7) ? "<freejoint/>" : "<joint type=\"slide\" axis=\"0 0 1\"/>") +
                  "<geom name=\"fbox\" type=\"box\" size=\"0.3 0.3 0.05\" mass=\"0.2\"/><geom name=\"pad\" type=\"mesh\" mesh=\"pad\" mass=\"0\" contype=\"0\" conaffinity=\"0\"/></body>";
  int nb = r.range(1, 5);
  for (int i = 0; i < nb; i++)
    x += "<body name=\"p" + std::to_string(i) + "\" pos=\"" + f(r.uniform(-0.2, 0.2)) + " " + f(r.uniform(-0.2, 0.2)) + " " + f(r.uniform(0.13, 0.16)) + "\"><freejoint/><geom type=\"" + (i % 2 ? "sphere\" size=\"0.04" : "box\" size=\"0.04 0.03 0.04") + "\"/></body>";
  x += "</worldbody><sensor><tactile geom=\"pad\" mesh=\"pad\"/></sensor></mujoco>";
  *ntaxel = 0;
  return x;
}

// mju_error: on the main thread it unwinds to the guard (nd::on_error); on a pool worker there is nothing to
// unwind to, and with the generous memory of this driver an error inside a task is itself a difference from
// the pool-less twin (which completed the same call)
static void c02_error(const char* msg) {
  snprintf(nd::g_lasterr, sizeof nd::g_lasterr, "%s", msg);
  if (vsim::active() && vsim::self() != 0) sd::violation("error-in-task", "mju_error raised on pool worker %d: %s", vsim::self(), msg);
  if (nd::g_jmp) longjmp(*nd::g_jmp, 1);
  sd::violation("unexpected-error", "mju_error outside a guarded call: %s", msg);
}

int main(int argc, char** argv) {
  sd::no_aslr(argv);
  sd::g_property = "C02"; nd::g_property = "C02";
  sd::parse_args(argc, argv);
  nd::parse_args(argc, argv);
  sd::install_handlers();
  sd::engine_warmup();
  sd::use_caching_alloc();
  mju_user_error = c02_error; mju_user_warning = nd::on_warning;
  setvbuf(stdout, 0, _IOLBF, 0);
  Supply sup; sup.init();
  uint64_t est_len = 3000;
  for (uint64_t s = sd::g_args.seed0; s < sd::g_args.seed0 + sd::g_args.n; s++) {
    Rng r(s);
    nd::g_seed = s; nd::g_blob.clear();
    // ---- model: families chosen so that the step has several constraint islands and/or >16 candidate pairs
    int fam = r.below(100); fam = fam < 26 ? F_GROUPS : fam < 38 ? F_CLUSTER : fam < 66 ? F_FOREST : fam < 78 ? F_CORPUS : fam < 88 ? F_TACTILE : F_FIELD;
    if (sup.corpus.empty() && fam == F_CORPUS) fam = F_FOREST;
    mg::GenOpts go; go.memory = "32M"; go.allow_rk4 = true;
    std::string mdesc; mjModel* m = nullptr; std::string err;
    if (fam == F_CORPUS) {
      // repo models compile with the compiler's own thread pool: give it a (sequential-policy) simulation of its own
      vsim::Config c0; c0.seed = s; c0.policy = vsim::P_STICKY; c0.sticky_ppm = 0; c0.hw_concurrency = 4;
      vsim::begin(c0);
      sup.corpus_share = 1.0; m = sup.get(r, go, &mdesc, nullptr, 120);
      vsim::end();
    }
    else if (fam == F_TACTILE) {
      int nt = 0; std::string x = tactile_xml(r, &nt);
      nd::g_blob = x + "\n"; mdesc = "tactile-pad";
      m = mg::compile(x, &err);
      if (m && m->nmesh) mdesc += "(" + std::to_string(m->mesh_vertnum[0]) + " taxels)";
    }
    else {
      sup.corpus_share = 0.0;
      if (fam == F_GROUPS) { go.dense_cluster = true; go.cluster_n = r.range(8, 24); go.cluster_group = r.range(2, 6); go.sensors = false; go.cluster_convex = r.chance(0.6); }
      else if (fam == F_FIELD) {
        // a row of separate bodies that already touch the floor: one constraint island each, more islands than the mjNISLAND slots of
        // the per-island solver statistics
        go.dense_cluster = true; go.cluster_n = r.range(22, 33); go.cluster_group = 1; go.cluster_z = 0.04; go.sensors = false; go.cluster_convex = r.chance(0.3);
      }
      else if (fam == F_CLUSTER) { go.dense_cluster = true; go.cluster_n = r.range(6, 16); go.sensors = false; go.cluster_convex = r.chance(0.6); }
      else { go.min_trees = 4; go.max_trees = 9; go.spread = r.chance(0.5) ? 0.25 : 0.5; }
      m = sup.get(r, go, &mdesc);
    }
    if (!m) { sd::probe("model_skipped"); continue; }
    if (m->nbody > 80 || m->nv > 200) { sd::probe("model_skipped_large"); mj_deleteModel(m); continue; }
    sd::probe((std::string("family_") + kFam[fam]).c_str());
    // ---- scenario: pool size, op list
    int nworker = r.range(1, 4);
    if (r.chance(0.1)) nworker = r.range(5, 8);
    int nops = r.range(2, 7);
    std::vector<Op> all, ops;
    for (int i = 0; i < nops; i++) {
      int k = r.below(100);
      int kind = k < 50 ? O_STEP : k < 62 ? O_FORWARD : k < 70 ? O_INVERSE : k < 82 ? O_CTRL : k < 88 ? O_XFRC : k < 92 ? O_QFRC : k < 95 ? O_MOCAP : k < 97 ? O_EQ : k < 99 ? O_RESET : O_RESETKEY;
      Op o = gen_input_op(r, m, kind);
      if (kind == O_STEP) o.n = r.range(1, 3);
      all.push_back(o);
    }
    if (!is_compute(all.back().kind)) { Op o; o.kind = O_STEP; o.n = 1; all.push_back(o); }
    for (int i = 0; i < (int)all.size(); i++) if (!sd::g_args.drop.count(i)) ops.push_back(all[i]);
    bool resize_mid = r.chance(0.15);            // change the pool size in the middle of the history
    int nworker2 = r.range(0, 4);
    sd::g_scenario = std::string(kFam[fam]) + " " + mdesc + " workers=" + std::to_string(nworker) + (resize_mid ? "->" + std::to_string(nworker2) : "") + " ops:";
    for (auto& o : ops) sd::g_scenario += " " + o.str();
    if (sd::g_scenario.size() > 1500) sd::g_scenario.resize(1500);
    sd::Rng r2(s ^ 0x5DEECE66DULL);
    vsim::Config cfg = sd::swarm(r2, {0, 0, 300, 3000, 30000}, {}, est_len);
    cfg.starve_victim = r.range(0, nworker);
    cfg.opp_cap = 20000000000ULL;   // backstop only; livelock is decided by the no-progress counter.  >100x the largest unchanged-tree run (evidence: max_opportunities;
                                    // the earlier 4e8 was only 3x above it, and a soak met a dense RK4/Newton/elliptic history of 3.7e8 basic blocks: a false "livelock")
    sd::apply_overrides(cfg);
    mjData* P = mu::make_data(m, s * 2 + 1);     // pooled
    mjData* S = mu::make_data(m, s * 2 + 2);     // single-threaded twin
    // small random displacement so that clusters are not perfectly symmetric (identical on both twins)
    for (int i = 0; i < m->nv; i++) { mjtNum v = r.uniform(-0.3, 0.3); P->qvel[i] = v; S->qvel[i] = v; }
    // ---- run
    sd::run_begin(s, cfg);
    mju_threadpool(P, nworker);
    int ncompared = 0;
    bool ended = false;
    for (size_t oi = 0; oi < ops.size() && !ended; oi++) {
      const Op& o = ops[oi];
      if (resize_mid && oi == ops.size() / 2) mju_threadpool(P, nworker2);
      StackGuard gp(P);
      bool es = apply(m, S, o);
      // the pool-less twin goes first: if the call raises mju_error there (numerical blow-up, e.g. a rank-deficient Hessian), the
      // history ends; with a pool the same error would be raised on a worker thread, from which nothing can unwind
      if (es) { sd::probe("history_ended_by_mju_error_in_poolless_twin"); ended = true; break; }
      bool ep = apply(m, P, o);
      if (ep) sd::violation("error-differs", "%s raised mju_error with the pool only: %s", o.str().c_str(), nd::g_lasterr);
      if (!is_compute(o.kind)) continue;
      if (!gp.ok()) sd::violation("stack-not-restored", "%s with a pool returned with pstack/pbase %zu/%zu, entered with %zu/%zu", o.str().c_str(), (size_t)P->pstack, (size_t)P->pbase, gp.ps, gp.pb);
      if (P->threadlock) sd::violation("threadlock", "mjData still thread-locked after %s", o.str().c_str());
      mu::Diff df = mu::compare(m, P, S, scratch_fields(m));
      if (df.differs)
        sd::violation("pool-differs", "after %s (op %zu) %s[%ld] differs between the pooled and the pool-less twin: %s", o.str().c_str(), oi, df.field.c_str(), df.index, df.detail.c_str());
      for (int i = 0; i < mjNISLAND; i++) if (P->solver_niter[i] != S->solver_niter[i]) sd::violation("pool-differs", "solver_niter[%d] %d vs %d after %s", i, P->solver_niter[i], S->solver_niter[i], o.str().c_str());
      if (memcmp(P->solver, S->solver, sizeof P->solver)) {
        // mjSolverStat is all-numeric without padding; compare by member to stay robust
        for (int i = 0; i < mjNISLAND * mjNSOLVER; i++) {
#define X(f) if (memcmp(&P->solver[i].f, &S->solver[i].f, sizeof P->solver[i].f)) sd::violation("pool-differs", "solver[%d]." #f " differs after %s", i, o.str().c_str());
          VGEN_MJSOLVERSTAT_FIELDS
#undef X
        }
      }
      ncompared++;
      if (P->nisland >= 2) sd::probe("compared_calls_with_2+_islands");
      if (P->nisland >= 4) sd::probe("compared_calls_with_4+_islands");
      if (P->nisland > mjNISLAND) sd::probe("compared_calls_with_more_islands_than_mjNISLAND");
      if (P->ncon >= 17) sd::probe("compared_calls_with_17+_contacts");
      if (P->nefc) sd::probe("compared_calls_with_constraints");
      if (fam == F_TACTILE && m->nmesh && m->mesh_vertnum[0] >= 1000) {
        bool touched = false; for (int i = 0; i < m->nsensordata; i++) if (P->sensordata[i] != 0) { touched = true; break; }
        if (touched) sd::probe("compared_calls_with_parallel_tactile_sensor");
      }
    }
    sd::probe("compared_calls", ncompared);
    if (r.chance(0.5)) { mju_threadpool(P, 0); } else { mu::dispose(P); P = nullptr; sd::probe("pool_destroyed_by_deleteData"); }
    sd::run_end();
    if (vsim::stats().max_runnable >= 2) sd::probe("runs_with_parallel_dispatch");
    if (P) mu::dispose(P);
    mu::dispose(S);
    mj_deleteModel(m);
    est_len = (est_len * 7 + vsim::stats().opportunities + 8) / 8;
  }
  sd::g_agg.print(stdout);
  return 0;
}
