// C03: thread-pool dispatch runs each task exactly once.
// System under test: the UNMODIFIED src/engine/engine_thread.cc (and engine_memory.c for the
// thread-locked stack), compiled against the simulator's std::atomic / std::thread.
// Workload: seeded histories of create / same-size / resize / dispatch / destroy on one mjData.
#include <mujoco/mujoco.h>

#include "engine/engine_thread.h"
#include "simdrv.h"

using namespace sd;

static const char* kModel =
    "<mujoco><size memory=\"256K\"/><worldbody><body><freejoint/><geom size=\"0.1\"/></body></worldbody></mujoco>";

enum OpKind { OP_POOL, OP_DISPATCH };
struct Op { int kind; int a; int body[16]; };

// ---- oracle state, written by tasks and read by the dispatcher after mju_dispatch returns
static int hits[16], tids[16], result[16];
static int busy[8];
static volatile int cur_gen = -1;
static int nworker_now = 0;
struct Blk { char* p; size_t n; };
static Blk blk[16];
struct Ctx { int gen; const Op* op; };

static void task(const mjModel* m, mjData* d, void* arg, int tid, int id) {
  Ctx* c = (Ctx*)arg;
  vsim::note(1, id * 16 + tid);
  if (cur_gen != c->gen) violation("late-task", "task %d started on thread %d outside its dispatch (gen %d, now %d)", id, tid, c->gen, cur_gen);
  if (tid < 0 || tid > nworker_now) violation("bad-thread-id", "task %d ran with thread id %d, pool has workers 1..%d", id, tid, nworker_now);
  if (id < 0 || id >= c->op->a) violation("bad-task-id", "task id %d outside 0..%d", id, c->op->a - 1);
  if (busy[tid]++) violation("overlap", "two tasks overlap on thread id %d", tid);
  hits[id]++;
  tids[id] = tid;
  int body = c->op->body[id];
  if (body == 1) { vsim::yield_now(); }
  else if (body == 2) { vsim::yield_now(); vsim::yield_now(); vsim::yield_now(); }
  else if (body == 3 || body == 4) {
    // reservation on the thread-locked stack (shared with C19): block must be usable and private
    // (engine tasks bracket their allocations with mark/free, which are no-ops under the lock)
    size_t n = body == 3 ? 24 : 200;
    mj_markStack(d);
    char* p = (char*)mj_stackAllocByte(d, n, body == 3 ? 8 : 64);
    memset(p, 0x40 + id, n);
    if (d->threadlock) blk[id] = {p, n};
    vsim::yield_now();
    for (size_t j = 0; j < n; j++) if (p[j] != (char)(0x40 + id)) violation("reservation-overlap", "stack block of task %d was overwritten while live", id);
    mj_freeStack(d);
  }
  result[id] = c->gen * 100 + id;
  busy[tid]--;
  if (cur_gen != c->gen) violation("late-task", "task %d finished on thread %d after its dispatch returned", id, tid);
  vsim::note(2, id * 16 + tid);
}

static std::string describe(const std::vector<Op>& ops, int final_mode) {
  std::string s;
  char b[64];
  for (auto& o : ops) {
    if (o.kind == OP_POOL) snprintf(b, sizeof b, "pool(%d) ", o.a); else snprintf(b, sizeof b, "dispatch(%d) ", o.a);
    s += b;
  }
  s += final_mode ? "deleteData" : "pool(0)";
  return s;
}

int main(int argc, char** argv) {
  no_aslr(argv);
  g_property = "C03";
  parse_args(argc, argv);
  install_handlers();
  engine_warmup();
  use_caching_alloc();
  setvbuf(stdout, 0, _IOLBF, 0);
  char err[512] = "";
  mjSpec* spec = mj_parseXMLString(kModel, nullptr, err, sizeof err);
  if (!spec) { fprintf(stderr, "harness: model parse failed: %s\n", err); return 2; }
  mjModel* m = mj_compile(spec, nullptr);
  if (!m) { fprintf(stderr, "harness: compile failed\n"); return 2; }
  uint64_t est_len = 150;
  for (uint64_t s = g_args.seed0; s < g_args.seed0 + g_args.n; s++) {
    Rng r(s);
    // ---- scenario
    std::vector<Op> all;
    int nops = r.range(1, 8);
    for (int i = 0; i < nops; i++) {
      Op o{};
      if (i == 0 || r.chance(0.35)) { o.kind = OP_POOL; o.a = r.range(0, 4); }
      else { o.kind = OP_DISPATCH; o.a = r.range(0, 12); int style = r.below(4); for (int k = 0; k < 16; k++) o.body[k] = style == 0 ? 0 : style == 1 ? r.below(3) : r.below(5); }
      all.push_back(o);
    }
    int final_mode = r.below(2);
    std::vector<Op> ops;
    for (int i = 0; i < (int)all.size(); i++) if (!g_args.drop.count(i)) ops.push_back(all[i]);
    g_scenario = describe(ops, final_mode);
    vsim::Config cfg = swarm(r, {0, 0, 20000, 300000}, {}, est_len);
    cfg.starve_victim = r.range(0, 4);
    cfg.opp_cap = 1000000;   // >100x the largest run on the unchanged tree (~7e3 opportunities; evidence: max_opportunities)
    apply_overrides(cfg);
    mjData* d = mj_makeData(m);
    // ---- run
    run_begin(s, cfg);
    int gen = 0;
    nworker_now = 0;
    for (auto& o : ops) {
      if (o.kind == OP_POOL) {
        mju_threadpool(d, o.a);
        nworker_now = o.a;
        if (mju_numThread(d) != o.a + 1) violation("pool-size", "mju_numThread=%d after mju_threadpool(%d)", mju_numThread(d), o.a);
        if ((o.a == 0) != (d->threadpool == 0)) violation("pool-handle", "threadpool handle inconsistent after mju_threadpool(%d)", o.a);
      } else {
        gen++;
        memset(hits, 0, sizeof hits); memset(busy, 0, sizeof busy); memset(blk, 0, sizeof blk);
        for (int k = 0; k < 16; k++) { tids[k] = -1; result[k] = -1; }
        Ctx c{gen, &o};
        size_t ps = d->pstack, pb = d->pbase;
        cur_gen = gen;
        mju_dispatch(m, d, task, &c, o.a);
        cur_gen = -1;
        for (int k = 0; k < 16; k++) {
          int want = k < o.a ? 1 : 0;
          if (hits[k] != want) violation(hits[k] < want ? "lost-task" : "duplicate-task", "dispatch of %d tasks on %d workers: task %d ran %d times", o.a, nworker_now, k, hits[k]);
          if (want && result[k] != gen * 100 + k) violation("result-not-visible", "result of task %d not visible after dispatch returned", k);
          if (want && (nworker_now == 0 || o.a < 2) && tids[k] != 0) violation("bad-thread-id", "inline path ran task %d on thread id %d", k, tids[k]);
        }
        for (int k = 0; k < o.a; k++) {
          if (!blk[k].p) continue;
          for (size_t j = 0; j < blk[k].n; j++) if (blk[k].p[j] != (char)(0x40 + k)) violation("reservation-overlap", "stack block of task %d was overwritten", k);
        }
        if (d->threadlock) violation("threadlock", "mjData still thread-locked after dispatch");
        if (d->pstack != ps || d->pbase != pb) violation("stack-not-restored", "pstack/pbase %zu/%zu -> %zu/%zu across dispatch", ps, pb, (size_t)d->pstack, (size_t)d->pbase);
        if (nworker_now > 0 && o.a >= 2) {
          std::set<int> used; for (int k = 0; k < o.a; k++) used.insert(tids[k]);
          if (used.size() > 1) probe("dispatch_used_multiple_threads");
          if (!used.count(0)) probe("dispatch_main_got_no_task");
        }
      }
    }
    if (final_mode) { mj_deleteData(d); d = nullptr; } else { mju_threadpool(d, 0); }
    run_end();   // fails with thread-leak if any worker outlived the pool
    if (d) mj_deleteData(d);
    est_len = (est_len * 7 + vsim::stats().opportunities + 8) / 8;
  }
  g_agg.print(stdout);
  mj_deleteModel(m);
  mj_deleteSpec(spec);
  return 0;
}
