// mjData field tables (from the working tree's mjxmacro.h), bitwise comparison, volatile-state poison.
#pragma once
#include <mujoco/mjxmacro.h>
#include <mujoco/mujoco.h>

#include <cmath>
#include <cstdio>
#include <cstring>
#include <functional>
#include <set>
#include <string>
#include <vector>

#include "structs_gen.h"

namespace mu {

struct Field {
  const char* name;
  size_t elsize;
  size_t ptr_off;                                    // offset of the pointer member in mjData
  long (*rows)(const mjModel*, const mjData*);
  int nc;
  bool arena;
  bool is_contact;
};

inline std::vector<Field>& fields() {
  static std::vector<Field> f = [] {
    std::vector<Field> v;
#define XNV X
#define X(type, name, nr, nc) v.push_back(Field{#name, sizeof(type), offsetof(mjData, name), [](const mjModel* m, const mjData* d) -> long { (void)d; return (long)m->nr; }, (int)(nc), false, false});
    MJDATA_POINTERS
#undef X
#undef MJ_M
#undef MJ_D
#define MJ_M(n) m->n
#define MJ_D(n) d->n
#define X(type, name, nr, nc) v.push_back(Field{#name, sizeof(type), offsetof(mjData, name), [](const mjModel* m, const mjData* d) -> long { (void)m; (void)d; return (long)(nr); }, (int)(nc), true, std::string(#name) == "contact"});
    MJDATA_ARENA_POINTERS
#undef X
#undef XNV
#undef MJ_M
#undef MJ_D
#define MJ_M(n) n
#define MJ_D(n) n
    return v;
  }();
  return f;
}
inline char* fptr(const Field& f, const mjData* d) { return *(char* const*)((const char*)d + f.ptr_off); }
inline size_t fbytes(const Field& f, const mjModel* m, const mjData* d) { long r = f.rows(m, d); return r > 0 ? (size_t)r * f.nc * f.elsize : 0; }

// the integration state and user inputs: everything else in mjData is derived (a cache)
inline bool is_state_field(const std::string& n) {
  static const std::set<std::string> s = {"qpos", "qvel", "act", "history", "qacc_warmstart", "ctrl", "qfrc_applied", "xfrc_applied", "eq_active",
                                          "mocap_pos", "mocap_quat", "userdata", "plugin_state", "plugin", "plugin_data"};
  return s.count(n) > 0;
}
// arrays that record sleep state (not part of the state vector; only mj_copyData preserves them)
inline bool is_sleep_field(const std::string& n) {
  static const std::set<std::string> s = {"tree_asleep", "tree_awake", "body_awake", "body_awake_ind", "parent_awake_ind", "dof_awake_ind"};
  return s.count(n) > 0;
}

inline bool contact_equal(const mjContact& a, const mjContact& b, const char** which, bool skip_H = false) {
#define X(name) if (!(skip_H && !strcmp(#name, "H")) && memcmp(&a.name, &b.name, sizeof a.name)) { *which = #name; return false; }
  VGEN_MJCONTACT_FIELDS
#undef X
  return true;
}

struct Diff { bool differs = false; std::string field; long index = -1; std::string detail; };

// bitwise comparison of two mjData of the same model over `names` (empty = all buffer + arena arrays),
// minus `exclude`.  Arena arrays are compared only when both sides have them allocated with equal extents.
inline Diff compare(const mjModel* m, const mjData* a, const mjData* b, const std::set<std::string>& exclude, const std::set<std::string>* only = nullptr) {
  Diff df;
  auto fail = [&](const std::string& f, long i, const std::string& det) { df.differs = true; df.field = f; df.index = i; df.detail = det; return df; };
#define CMPI(n) if (!exclude.count(#n) && a->n != b->n) return fail(#n, -1, std::to_string((long)a->n) + " vs " + std::to_string((long)b->n));
  if (!only) { CMPI(ncon) CMPI(ne) CMPI(nf) CMPI(nl) CMPI(nefc) CMPI(nJ) CMPI(nisland) CMPI(nidof) }
#undef CMPI
  if (!only && !exclude.count("time") && memcmp(&a->time, &b->time, sizeof a->time)) return fail("time", -1, "");
  if (!only && !exclude.count("energy") && memcmp(a->energy, b->energy, sizeof a->energy)) return fail("energy", -1, "");
  for (const Field& f : fields()) {
    if (exclude.count(f.name)) continue;
    if (only && !only->count(f.name)) continue;
    char* pa = fptr(f, a); char* pb = fptr(f, b);
    if (f.arena) {
      if (!pa && !pb) continue;
      if (!pa || !pb) return fail(f.name, -1, "allocated on one side only");
    }
    long ra = f.rows(m, a), rb = f.rows(m, b);
    if (!strcmp(f.name, "efc_J") && !mj_isSparse(m)) { ra = (long)a->nefc * m->nv; rb = (long)b->nefc * m->nv; }   // dense: nefc x nv entries are defined, nJ is the allocation
    if (ra != rb) return fail(f.name, -1, "extent differs");
    if (ra <= 0) continue;
    if (f.is_contact) {
      for (long i = 0; i < ra; i++) { const char* w = ""; if (!contact_equal(((mjContact*)pa)[i], ((mjContact*)pb)[i], &w, exclude.count("contact.H") > 0)) return fail("contact", i, w); }
      continue;
    }
    size_t nb = (size_t)ra * f.nc * f.elsize;
    if (memcmp(pa, pb, nb)) {
      long i = 0;
      while (i < (long)nb && pa[i] == pb[i]) i++;
      char det[96] = "";
      if (f.elsize == sizeof(mjtNum)) snprintf(det, sizeof det, "%.17g vs %.17g", ((mjtNum*)pa)[i / 8], ((mjtNum*)pb)[i / 8]);
      else if (f.elsize == 4) snprintf(det, sizeof det, "%d vs %d", ((int*)pa)[i / 4], ((int*)pb)[i / 4]);
      return fail(f.name, i / (long)f.elsize, det);
    }
  }
  if (!only) {
    for (int i = 0; i < mjNWARNING && !exclude.count("warning.number"); i++) if (a->warning[i].number != b->warning[i].number) return fail("warning.number", i, std::to_string(a->warning[i].number) + " vs " + std::to_string(b->warning[i].number));
    if (!exclude.count("pstack/pbase") && (a->pstack != b->pstack || a->pbase != b->pbase)) return fail("pstack/pbase", -1, "");
  }
  return df;
}

// arena content is unspecified after mj_makeData: fill it with seeded garbage so that any read of
// uninitialised arena memory shows up as a difference between twins instead of an accidental match
inline void arena_garbage(mjData* d, uint64_t seed) {
  uint64_t s = seed * 0x9E3779B97F4A7C15ULL + 7;
  unsigned char* ar = (unsigned char*)d->arena;
  // bottom (arena allocations) and top (stack) of the region; the untouched middle of a huge arena is skipped
  size_t lo = d->narena < (1u << 20) ? d->narena : (1u << 20), hi = d->narena < (3u << 19) ? 0 : (1u << 19);
  for (size_t i = 0; i + 8 <= lo; i += 8) { s ^= s << 13; s ^= s >> 7; s ^= s << 17; memcpy(ar + i, &s, 8); }
  for (size_t i = d->narena - hi; i + 8 <= d->narena; i += 8) { s ^= s << 13; s ^= s >> 7; s ^= s << 17; memcpy(ar + i, &s, 8); }
}
inline mjData* make_data(const mjModel* m, uint64_t seed) {
  mjData* d = mj_makeData(m);
#if defined(__has_feature)
#if __has_feature(address_sanitizer)
  return d;   // ASan build: the engine poisons the arena itself, which serves the same purpose (and forbids the write)
#endif
#endif
  if (d) arena_garbage(d, seed);
  return d;
}

// Overwrite every non-state byte of a (used) mjData with garbage: derived arrays with an all-ones
// pattern (NaN for doubles, -1 for ints), the whole arena/stack region with seeded bytes, lazy flags
// with stale values.  `keep_sleep`: leave the sleep-state arrays and static-body kinematics alone.
inline void poison(const mjModel* m, mjData* d, uint64_t seed, bool keep_sleep) {
  for (const Field& f : fields()) {
    if (f.arena) continue;
    if (is_state_field(f.name)) continue;
    if (keep_sleep && is_sleep_field(f.name)) continue;
    size_t nb = fbytes(f, m, d);
    if (nb) memset(fptr(f, d), 0xFF, nb);
  }
  arena_garbage(d, seed ^ 0x5bd1e995);
  d->flg_energypos = d->flg_energyvel = d->flg_subtreevel = d->flg_rnepost = 1;
  // ncon/nefc/arena pointers are left as the used instance had them: only the CONTENT is garbage, which is
  // what makes a stale read visible (NaN / index -1) instead of silently plausible
}

// mju_error is fatal for an instance: the longjmp leaves its stack in use, and the ASan build of the engine
// (mjUSEASAN) then refuses to free it.  Dropping the dangling frames first is what an application would do.
inline void dispose(mjData* d) {
  if (!d) return;
  d->pstack = 0; d->pbase = 0; d->threadlock = 0;
  mj_deleteData(d);
}

inline std::vector<mjtNum> get_state(const mjModel* m, const mjData* d, int sig) {
  std::vector<mjtNum> v(mj_stateSize(m, sig) + 1);
  mj_getState(m, d, v.data(), sig);
  v.pop_back();
  return v;
}
inline bool all_finite(const mjtNum* p, long n) { for (long i = 0; i < n; i++) if (!std::isfinite(p[i])) return false; return true; }
}  // namespace mu
