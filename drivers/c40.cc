// C40: extension registries stay consistent under concurrent use.
// mode "table": the UNMODIFIED engine_global_table.h instantiated for a test payload whose CopyObject
//   writes several words with scheduling points in between; a fresh table per run (the constructor is
//   private, so this harness TU - and only it - includes the header with `private` opened up).
// mode "api": the real engine_plugin.cc entry points (process-global singletons): one forked child per run.
#include <mujoco/mujoco.h>
#include <sys/wait.h>

#define private public
#include "engine/engine_global_table.h"
#undef private
#include "engine/engine_plugin.h"
#include "simdrv.h"

using namespace sd;

// ------------------------------------------------------------------------------------ payload table
struct Payload {
  char key[24];
  uint64_t w[6];
  uint64_t sum;
};
static int g_key_first = 0;   // per-run: CopyObject writes the key first (partial object visible by key) or last
static uint64_t pay_sum(const Payload& p) { uint64_t s = 0x1234; for (int i = 0; i < 6; i++) s = s * 31 + p.w[i]; return s; }
static Payload make_payload(const char* key, uint64_t content) {
  Payload p{};
  snprintf(p.key, sizeof p.key, "%s", key);
  for (int i = 0; i < 6; i++) p.w[i] = content * 1000 + i;
  p.sum = pay_sum(p);
  return p;
}
namespace mujoco {
template <> const char* GlobalTable<Payload>::HumanReadableTypeName() { return "payload"; }
template <> std::string_view GlobalTable<Payload>::ObjectKey(const Payload& p) { return std::string_view(p.key, strnlen(p.key, sizeof p.key)); }
template <> bool GlobalTable<Payload>::ObjectEqual(const Payload& a, const Payload& b) { return !memcmp(a.w, b.w, sizeof a.w) && a.sum == b.sum; }
template <> bool GlobalTable<Payload>::CopyObject(Payload& dst, const Payload& src, ErrorMessage& err) {
  if (g_key_first) { memcpy(dst.key, src.key, sizeof dst.key); vsim::yield_now(); }
  for (int i = 0; i < 6; i++) { dst.w[i] = src.w[i]; if (i % 2) vsim::yield_now(); }
  dst.sum = src.sum;
  vsim::yield_now();
  if (!g_key_first) memcpy(dst.key, src.key, sizeof dst.key);
  return true;
}
}  // namespace mujoco
using Table = mujoco::GlobalTable<Payload>;
// a second table of another object type, as the engine has four (plugins, resource providers, decoders, encoders): a thread may register in one
// table while it holds the exclusive section of another (mj_loadAllPluginLibraries holds the plugin table's while the loaded library's
// initialiser registers, e.g., a resource provider)
struct Other { char key[8]; };
namespace mujoco {
template <> const char* GlobalTable<Other>::HumanReadableTypeName() { return "other"; }
template <> std::string_view GlobalTable<Other>::ObjectKey(const Other& p) { return std::string_view(p.key, strnlen(p.key, sizeof p.key)); }
template <> bool GlobalTable<Other>::ObjectEqual(const Other& a, const Other& b) { return !memcmp(a.key, b.key, sizeof a.key); }
template <> bool GlobalTable<Other>::CopyObject(Other& dst, const Other& src, ErrorMessage& err) { dst = src; return true; }
}  // namespace mujoco
using OtherTable = mujoco::GlobalTable<Other>;
static OtherTable* g_other;
static int g_holder = -1;   // per run: the thread that performs its operations inside the other table's exclusive section (-1: none)

// ------------------------------------------------------------------------------------ error capture
static thread_local jmp_buf* tl_jmp = nullptr;
static thread_local char tl_err[600];
static void on_error(const char* msg) {
  if (tl_jmp) { snprintf(tl_err, sizeof tl_err, "%s", msg); longjmp(*tl_jmp, 1); }
  fprintf(stderr, "harness: unexpected mju_error outside an operation: %s\n", msg);
  _exit(2);
}
static void on_warning(const char*) {}

// ------------------------------------------------------------------------------------ scenario
enum { O_REG_NEW, O_REG_SAME, O_REG_CONFLICT, O_GET_KEY, O_GET_SLOT, O_COUNT, O_SCAN };
struct Op { int kind; int key; int variant; };   // key: index into key universe; variant: case variant / slot offset
struct Obs { uint64_t inv, ret; int thread; Op op; int slot; bool found; int count; bool error; };
static const int NKEY = 40;
static char keyname[NKEY][24];
// the documented comparison (ASCII letters fold, nothing else does), written here independently of the table's own helper
// resource-provider prefixes must be URI schemes (letters, digits, + - .): the punctuation character of a key becomes a digit there
static std::string provkey(int k) { std::string t = keyname[k]; for (auto& c : t) if (!isalnum((unsigned char)c)) c = (char)('0' + k % 2); return t; }
static bool ci_equal(const char* a, const char* b) { for (; *a && *b; a++, b++) if (tolower((unsigned char)*a) != tolower((unsigned char)*b)) return false; return *a == *b; }
static std::string casevar(const char* k, int v) {
  std::string s(k);
  for (size_t i = 0; i < s.size(); i++) if ((v >> (i % 3)) & 1) s[i] = (char)toupper(s[i]);
  return s;
}
struct ThreadPlan { std::vector<Op> ops; std::vector<Obs> obs; };

// ---- mode table
static Table* g_tab;
static void check_obj(const Payload* p, const char* how) {
  // a returned object must be completely registered
  Payload c;
  memcpy(&c, p, sizeof c);           // plain reads of table memory: what TSan watches
  if (!c.key[0]) violation("partial-object", "%s returned an object with an empty key", how);
  if (pay_sum(c) != c.sum) violation("partial-object", "%s returned a partially copied object (key %s)", how, c.key);
}
static void run_thread_table_ops(int t, ThreadPlan* tp);
static void run_thread_table(int t, ThreadPlan* tp) {
  if (t == g_holder) { auto lock = g_other->LockExclusively(); vsim::note(9, t); run_thread_table_ops(t, tp); }
  else run_thread_table_ops(t, tp);
}
static void run_thread_table_ops(int t, ThreadPlan* tp) {
  for (auto& op : tp->ops) {
    Obs o{}; o.thread = t; o.op = op; o.slot = -1;
    o.inv = vsim::seq();
    vsim::note(10 + op.kind, op.key);
    switch (op.kind) {
      case O_REG_NEW: case O_REG_SAME: case O_REG_CONFLICT: {
        uint64_t content = op.kind == O_REG_CONFLICT ? 7000 + op.key : op.key;
        Payload p = make_payload(casevar(keyname[op.key], op.variant).c_str(), content);
        jmp_buf jb; tl_jmp = &jb;
        if (setjmp(jb)) { o.error = true; }
        else { o.slot = g_tab->AppendIfUnique(p); }
        tl_jmp = nullptr;
        break;
      }
      case O_GET_KEY: {
        int slot = -2;
        const Payload* p = g_tab->GetByKey(casevar(keyname[op.key], op.variant), &slot);
        o.found = p != nullptr; o.slot = slot;
        if (p) {
          check_obj(p, "lookup by key");
          if (!ci_equal(p->key, keyname[op.key])) violation("wrong-object", "lookup of %s returned %s", keyname[op.key], p->key);
          if (slot < 0) violation("slot-mismatch", "lookup by key found %s but reported slot %d", keyname[op.key], slot);
          const Payload* q = g_tab->GetAtSlot(slot);
          if (q != p) violation("slot-mismatch", "lookup by key and by slot %d disagree for %s", slot, keyname[op.key]);
        } else if (slot != -1) violation("slot-mismatch", "failed lookup reported slot %d", slot);
        break;
      }
      case O_GET_SLOT: {
        int n = g_tab->count();
        int slot = op.variant % (n + 2) - 1;     // -1 .. n
        const Payload* p = g_tab->GetAtSlot(slot);
        o.slot = slot; o.found = p != nullptr; o.count = n;
        if (slot >= 0 && slot < n && !p) violation("hole", "slot %d below the published count %d is empty", slot, n);
        if (slot < 0 && p) violation("bad-slot", "negative slot returned an object");
        if (p) check_obj(p, "lookup by slot");
        break;
      }
      case O_COUNT: o.count = g_tab->count(); break;
      case O_SCAN: {
        int n = g_tab->count(); o.count = n;
        for (int i = 0; i < n; i++) {
          const Payload* p = g_tab->GetAtSlotUnsafe(i, n);
          if (!p) violation("hole", "slot %d below the published count %d is empty", i, n);
          check_obj(p, "scan");
        }
        break;
      }
    }
    o.ret = vsim::seq();
    tp->obs.push_back(o);
  }
}

struct Scenario { int prepop; int nthreads; std::vector<ThreadPlan> plans; int key_first; };

static Scenario gen_scenario(Rng& r, int total_cap, std::string* desc) {
  Scenario s;
  s.key_first = r.below(2);
  s.prepop = r.chance(0.75) ? r.range(11, 16) : r.range(0, 3);
  s.nthreads = r.range(2, 4);
  int opidx = 0;
  char b[96];
  snprintf(b, sizeof b, "prepop=%d keyfirst=%d threads=%d:", s.prepop, s.key_first, s.nthreads);
  *desc = b;
  int nextnew = s.prepop;
  for (int t = 0; t < s.nthreads; t++) {
    ThreadPlan tp;
    int n = r.range(2, 7);
    *desc += " [";
    for (int i = 0; i < n; i++, opidx++) {
      Op o{};
      int k = r.below(100);
      if (k < 30) { o.kind = O_REG_NEW; o.key = r.chance(0.3) && nextnew > s.prepop ? r.range(s.prepop, nextnew - 1) : nextnew++; if (o.key >= NKEY) o.key = NKEY - 1; }
      else if (k < 38 && s.prepop) { o.kind = O_REG_SAME; o.key = r.below(s.prepop); }
      else if (k < 46 && s.prepop) { o.kind = O_REG_CONFLICT; o.key = r.below(s.prepop); }
      else if (k < 70) { o.kind = O_GET_KEY; o.key = r.below(std::min(NKEY, nextnew + 2)); }
      else if (k < 85) { o.kind = O_GET_SLOT; }
      else if (k < 92) { o.kind = O_COUNT; }
      else { o.kind = O_SCAN; }
      o.variant = r.below(64);
      if (g_args.drop.count(opidx)) continue;
      tp.ops.push_back(o);
      static const char* nm[] = {"reg", "regsame", "regconflict", "get", "slot", "count", "scan"};
      snprintf(b, sizeof b, "%s%s(%d)", i ? " " : "", nm[o.kind], o.kind <= O_GET_KEY ? o.key : o.variant);
      *desc += b;
    }
    *desc += "]";
    s.plans.push_back(tp);
  }
  return s;
}

// validate the recorded history of all threads against the registry contract
static void check_history_table(const Scenario& s) {
  int n = g_tab->count();
  // dense, distinct, complete
  std::map<std::string, int> slot_of;
  for (int i = 0; i < n; i++) {
    const Payload* p = g_tab->GetAtSlot(i);
    if (!p) violation("hole", "final table: slot %d of %d is empty", i, n);
    check_obj(p, "final scan");
    std::string k = casevar(p->key, 0);
    for (auto& c : k) c = (char)tolower(c);
    if (slot_of.count(k)) violation("duplicate-key", "key %s occupies slots %d and %d", k.c_str(), slot_of[k], i);
    slot_of[k] = i;
  }
  if (g_tab->GetAtSlot(n)) violation("bad-slot", "slot == count returned an object");
  std::vector<Obs> all;
  for (auto& tp : s.plans) for (auto& o : tp.obs) all.push_back(o);
  std::map<int, int> key_slot;   // key index -> slot seen
  auto see = [&](int key, int slot, const char* how) {
    auto it = key_slot.find(key);
    if (it == key_slot.end()) key_slot[key] = slot;
    else if (it->second != slot) violation("unstable-slot", "key %s seen at slot %d and at slot %d (%s)", keyname[key], it->second, slot, how);
  };
  for (int k = 0; k < s.prepop; k++) see(k, k, "prepopulation");
  int new_ok = 0;
  for (auto& o : all) {
    switch (o.op.kind) {
      case O_REG_NEW:
        if (o.error) {
          // a new key may only fail if ... it never may: same key from another thread carries identical content
          violation("spurious-failure", "registration of %s failed", keyname[o.op.key]);
        }
        if (o.slot < 0 || o.slot >= n) violation("bad-slot", "registration of %s returned slot %d (count %d)", keyname[o.op.key], o.slot, n);
        see(o.op.key, o.slot, "registration");
        new_ok++;
        break;
      case O_REG_SAME:
        if (o.op.key < s.prepop) {
          if (o.error) violation("spurious-failure", "identical re-registration of %s failed", keyname[o.op.key]);
          if (o.slot != o.op.key) violation("unstable-slot", "identical re-registration of %s returned slot %d, original %d", keyname[o.op.key], o.slot, o.op.key);
        }
        break;
      case O_REG_CONFLICT:
        if (o.op.key < s.prepop && !o.error) violation("conflict-accepted", "conflicting re-registration of %s succeeded (slot %d)", keyname[o.op.key], o.slot);
        break;
      case O_GET_KEY:
        if (o.found) see(o.op.key, o.slot, "lookup");
        if (o.op.key < s.prepop && !o.found) violation("lost-object", "lookup of pre-registered %s failed", keyname[o.op.key]);
        break;
    }
  }
  // real-time order: a lookup invoked after a registration returned must find the key
  for (auto& r : all) {
    if (r.op.kind != O_REG_NEW || r.error) continue;
    for (auto& g : all) {
      if (g.op.kind == O_GET_KEY && g.op.key == r.op.key && g.inv > r.ret && !g.found)
        violation("lost-object", "lookup of %s invoked after its registration returned did not find it", keyname[r.op.key]);
      if ((g.op.kind == O_COUNT || g.op.kind == O_SCAN) && g.inv > r.ret && g.count <= r.slot)
        violation("count-behind", "count()=%d read after registration at slot %d returned", g.count, r.slot);
    }
  }
  // the final table holds exactly the pre-populated keys plus the distinct newly registered ones
  std::set<int> distinct;
  for (auto& o : all) if (o.op.kind == O_REG_NEW && !o.error) distinct.insert(o.op.key);
  for (int k = 0; k < s.prepop; k++) distinct.erase(k);
  if (n != s.prepop + (int)distinct.size()) violation("count-mismatch", "final count %d, expected %d pre-populated + %zu new keys", n, s.prepop, distinct.size());
  // per-thread monotone count
  for (auto& tp : s.plans) {
    int last = -1;
    for (auto& o : tp.obs) if (o.op.kind == O_COUNT || o.op.kind == O_SCAN) { if (o.count < last) violation("count-decreased", "count went from %d to %d", last, o.count); last = o.count; }
  }
}

static void run_table(uint64_t seed) {
  Rng r(seed);
  std::string desc;
  Scenario s = gen_scenario(r, 0, &desc);
  g_scenario = desc;
  g_key_first = s.key_first;
  vsim::Config cfg = swarm(r, {0, 5000, 50000, 300000}, {}, 400);
  cfg.opp_cap = 3000000;
  apply_overrides(cfg);
  // fresh table in fresh, zeroed, suitably aligned storage
  static void* mem = aligned_alloc(256, sizeof(Table) + 256);
  // blocks allocated by previous runs are leaked on purpose (the table never frees)
  memset(mem, 0, sizeof(Table));
  g_tab = new (mem) Table();
  static void* mem2 = aligned_alloc(256, sizeof(OtherTable) + 256);
  memset(mem2, 0, sizeof(OtherTable));
  g_other = new (mem2) OtherTable();
  g_holder = r.chance(0.3) ? (int)r.below(s.nthreads) : -1;
  if (g_holder >= 0) { g_scenario += " [thread " + std::to_string(g_holder) + " inside another table's exclusive section]"; }
  run_begin(seed, cfg);
  for (int k = 0; k < s.prepop; k++) {
    Payload p = make_payload(keyname[k], k);
    int slot = g_tab->AppendIfUnique(p);
    if (slot != k) violation("bad-slot", "sequential registration %d returned slot %d", k, slot);
  }
  {
    std::vector<std::thread> th;
    for (int t = 0; t < s.nthreads; t++) th.emplace_back(run_thread_table, t, &s.plans[t]);
    for (auto& t : th) t.join();
  }
  check_history_table(s);
  bool crossed = s.prepop <= 15 && g_tab->count() > 15;
  run_end();
  if (crossed) probe("block_boundary_crossed_concurrently");
  if (g_holder >= 0) probe("runs_with_a_thread_inside_another_tables_lock");
  if (g_tab->count() > 30) probe("third_block_reached");
  for (auto& tp : s.plans) for (auto& o : tp.obs) {
    if (o.op.kind == O_REG_CONFLICT && o.error) probe("conflict_rejected");
    if (o.op.kind == O_GET_KEY && !o.found) probe("lookup_miss");
    if (o.op.kind == O_GET_KEY && o.found && o.op.key >= s.prepop) probe("lookup_hit_on_concurrently_registered_key");
  }
}

// ------------------------------------------------------------------------------------ mode api
static int ro_open(mjResource*) { return 0; }
static int ro_read(mjResource*, const void**) { return 0; }
static void ro_close(mjResource*) {}
static int ro_open2(mjResource*) { return 1; }
static int dec_can(const mjResource*) { return 1; }
static mjSpec* dec_decode(mjResource*, const mjVFS*) { return nullptr; }
static mjSpec* dec_decode2(mjResource*, const mjVFS*) { return nullptr; }
static const char* attr_a[] = {"alpha", "beta", "gamma"};

struct ApiObs { uint64_t inv, ret; int kind, key, slot; bool found, error; int count; };
struct ApiPlan { std::vector<Op> ops; std::vector<ApiObs> obs; };
static int base_plugins, base_providers;

static void check_plugin(const mjpPlugin* p, int key, const char* how) {
  if (!p->name || !p->name[0]) violation("partial-object", "%s returned a plugin without a name", how);
  if (!ci_equal(p->name, keyname[key])) violation("wrong-object", "%s for %s returned %s", how, keyname[key], p->name);
  if (p->nattribute != 3 || !p->attributes) violation("partial-object", "%s: plugin %s has %d attributes", how, p->name, p->nattribute);
  for (int i = 0; i < 3; i++) if (!p->attributes[i] || strcmp(p->attributes[i], attr_a[i])) violation("partial-object", "%s: plugin %s attribute %d wrong", how, p->name, i);
  if (p->capabilityflags != (key % 2 ? mjPLUGIN_SENSOR : mjPLUGIN_ACTUATOR)) violation("partial-object", "%s: plugin %s has wrong capability flags", how, p->name);
}
static void run_thread_api(int t, ApiPlan* tp) {
  for (auto& op : tp->ops) {
    ApiObs o{}; o.kind = op.kind; o.key = op.key; o.slot = -1;
    o.inv = vsim::seq();
    vsim::note(30 + op.kind, op.key);
    std::string nm = casevar(keyname[op.key], op.variant);
    switch (op.kind) {
      case O_REG_NEW: case O_REG_SAME: case O_REG_CONFLICT: {
        if (op.variant & 32) {   // resource provider
          mjpResourceProvider rp; mjp_defaultResourceProvider(&rp);
          std::string pre = std::string("p") + provkey(op.key);
          rp.prefix = pre.c_str(); rp.open = op.kind == O_REG_CONFLICT ? ro_open2 : ro_open; rp.read = ro_read; rp.close = ro_close;
          jmp_buf jb; tl_jmp = &jb;
          if (setjmp(jb)) o.error = true; else o.slot = mjp_registerResourceProvider(&rp);
          tl_jmp = nullptr;
          o.kind += 100;
        } else {
          mjpPlugin pl; mjp_defaultPlugin(&pl);
          // plugin identity compares names case-sensitively (a different spelling is a conflicting object),
          // so registrations use the canonical spelling; lookups use case variants
          pl.name = keyname[op.key]; pl.nattribute = 3; pl.attributes = attr_a;
          pl.capabilityflags = op.key % 2 ? mjPLUGIN_SENSOR : mjPLUGIN_ACTUATOR;
          if (op.kind == O_REG_CONFLICT) pl.needstage = mjSTAGE_VEL;
          jmp_buf jb; tl_jmp = &jb;
          if (setjmp(jb)) o.error = true; else o.slot = mjp_registerPlugin(&pl);
          tl_jmp = nullptr;
        }
        break;
      }
      case O_GET_KEY: {
        if (op.variant & 32) {
          std::string res = std::string("P") + casevar(provkey(op.key).c_str(), op.variant) + ":file.x";
          const mjpResourceProvider* rp = mjp_getResourceProvider(res.c_str());
          o.found = rp != nullptr; o.kind += 100;
          if (rp) {
            if (!rp->prefix || !rp->open || !rp->read || !rp->close) violation("partial-object", "provider lookup returned an incomplete provider");
            if (!ci_equal(rp->prefix, (std::string("p") + provkey(op.key)).c_str())) violation("wrong-object", "provider lookup for %s returned %s", res.c_str(), rp->prefix);
          }
        } else {
          int slot = -2;
          const mjpPlugin* p = mjp_getPlugin(nm.c_str(), &slot);
          o.found = p != nullptr; o.slot = slot;
          if (p) {
            check_plugin(p, op.key, "mjp_getPlugin");
            if (mjp_getPluginAtSlot(slot) != p) violation("slot-mismatch", "mjp_getPlugin and mjp_getPluginAtSlot(%d) disagree", slot);
          }
        }
        break;
      }
      case O_GET_SLOT: case O_SCAN: {
        int n = mjp_pluginCount(); o.count = n;
        for (int i = 0; i < n; i++) {
          const mjpPlugin* p = mjp_getPluginAtSlotUnsafe(i, n);
          if (!p) violation("hole", "plugin slot %d below the published count %d is empty", i, n);
          if (!p->name || !p->name[0] || (i >= base_plugins && (p->nattribute != 3 || !p->attributes || !p->attributes[2]))) violation("partial-object", "plugin at slot %d is incomplete", i);
        }
        int np = mjp_resourceProviderCount();
        for (int i = 1; i <= np; i++) {
          const mjpResourceProvider* rp = mjp_getResourceProviderAtSlot(i);
          if (!rp || !rp->prefix || !rp->open) violation("hole", "provider slot %d of %d is empty or incomplete", i, np);
        }
        break;
      }
      case O_COUNT: o.count = mjp_pluginCount(); break;
    }
    o.ret = vsim::seq();
    tp->obs.push_back(o);
  }
}
static void run_api(uint64_t seed) {
  Rng r(seed);
  std::string desc;
  Scenario s = gen_scenario(r, 0, &desc);
  g_scenario = "api " + desc;
  vsim::Config cfg = swarm(r, {0, 5000, 50000}, {}, 600);
  cfg.opp_cap = 5000000;
  apply_overrides(cfg);
  base_plugins = mjp_pluginCount();
  base_providers = mjp_resourceProviderCount();
  run_begin(seed, cfg);
  for (int k = 0; k < s.prepop; k++) {
    mjpPlugin pl; mjp_defaultPlugin(&pl);
    pl.name = keyname[k]; pl.nattribute = 3; pl.attributes = attr_a; pl.capabilityflags = k % 2 ? mjPLUGIN_SENSOR : mjPLUGIN_ACTUATOR;
    int slot = mjp_registerPlugin(&pl);
    if (slot != base_plugins + k) violation("bad-slot", "sequential plugin registration %d returned slot %d", k, slot);
    mjpResourceProvider rp; mjp_defaultResourceProvider(&rp);
    std::string pre = std::string("p") + provkey(k);
    rp.prefix = pre.c_str(); rp.open = ro_open; rp.read = ro_read; rp.close = ro_close;
    int ps = mjp_registerResourceProvider(&rp);
    if (ps != base_providers + k + 1) violation("bad-slot", "sequential provider registration %d returned slot %d", k, ps);
  }
  std::vector<ApiPlan> plans(s.nthreads);
  for (int t = 0; t < s.nthreads; t++) plans[t].ops = s.plans[t].ops;
  {
    std::vector<std::thread> th;
    for (int t = 0; t < s.nthreads; t++) th.emplace_back(run_thread_api, t, &plans[t]);
    for (auto& t : th) t.join();
  }
  // history checks
  int n = mjp_pluginCount();
  std::map<std::string, int> seen;
  for (int i = 0; i < n; i++) {
    const mjpPlugin* p = mjp_getPluginAtSlot(i);
    if (!p || !p->name) violation("hole", "final plugin table: slot %d of %d empty", i, n);
    std::string k(p->name); for (auto& c : k) c = (char)tolower(c);
    if (seen.count(k)) violation("duplicate-key", "plugin %s occupies slots %d and %d", k.c_str(), seen[k], i);
    seen[k] = i;
    int slot = -1;
    if (mjp_getPlugin(p->name, &slot) != p || slot != i) violation("slot-mismatch", "name and slot lookup disagree for %s", p->name);
  }
  int np = mjp_resourceProviderCount();
  std::set<std::string> pseen;
  for (int i = 1; i <= np; i++) {
    const mjpResourceProvider* rp = mjp_getResourceProviderAtSlot(i);
    if (!rp || !rp->prefix) violation("hole", "final provider table: slot %d of %d empty", i, np);
    std::string k(rp->prefix); for (auto& c : k) c = (char)tolower(c);
    if (pseen.count(k)) violation("duplicate-key", "provider prefix %s registered twice", k.c_str());
    pseen.insert(k);
  }
  std::map<int, int> kslot, pslot;
  for (int k = 0; k < s.prepop; k++) { kslot[k] = base_plugins + k; pslot[k] = base_providers + k + 1; }
  std::set<int> newk, newp;
  for (auto& pl : plans) for (auto& o : pl.obs) {
    bool prov = o.kind >= 100; int kind = o.kind % 100;
    auto& ms = prov ? pslot : kslot;
    if (kind == O_REG_NEW) {
      if (o.error) violation("spurious-failure", "registration of %s failed", keyname[o.key]);
      if (ms.count(o.key) && ms[o.key] != o.slot) violation("unstable-slot", "%s %s registered at slot %d and %d", prov ? "provider" : "plugin", keyname[o.key], ms[o.key], o.slot);
      ms[o.key] = o.slot; (prov ? newp : newk).insert(o.key);
    } else if (kind == O_REG_SAME && o.key < s.prepop) {
      if (o.error || o.slot != ms[o.key]) violation("unstable-slot", "identical re-registration of %s gave slot %d (error %d), original %d", keyname[o.key], o.slot, (int)o.error, ms[o.key]);
    } else if (kind == O_REG_CONFLICT && o.key < s.prepop) {
      if (!o.error) violation("conflict-accepted", "conflicting re-registration of %s succeeded", keyname[o.key]);
    } else if (kind == O_GET_KEY) {
      if (o.key < s.prepop && !o.found) violation("lost-object", "lookup of pre-registered %s failed", keyname[o.key]);
      if (!prov && o.found) { if (ms.count(o.key) && ms[o.key] != o.slot) violation("unstable-slot", "plugin %s seen at slots %d and %d", keyname[o.key], ms[o.key], o.slot); ms[o.key] = o.slot; }
    }
  }
  for (int k = 0; k < s.prepop; k++) { newk.erase(k); newp.erase(k); }
  if (n != base_plugins + s.prepop + (int)newk.size()) violation("count-mismatch", "final plugin count %d, expected %d", n, base_plugins + s.prepop + (int)newk.size());
  if (np != base_providers + s.prepop + (int)newp.size()) violation("count-mismatch", "final provider count %d, expected %d", np, base_providers + s.prepop + (int)newp.size());
  // sequential history on the decoder table (1-24 content types, i.e. across the first block boundary); in some runs one of the
  // registrations carries an empty content type: it may be refused, but it must not make the decoders registered after it unfindable
  {
    Rng rd(seed ^ 0xDEC0DE5ULL);
    int nd = rd.range(1, 24), empty_at = rd.chance(0.3) ? rd.below(nd) : -1;
    static char ct[24][40];
    mjResource res{}; char rname[] = "file.c40none"; res.name = rname;
    for (int i = 0; i < nd; i++) {
      snprintf(ct[i], sizeof ct[i], "text/c40k%d", i);
      mjpDecoder dc{}; dc.content_type = i == empty_at ? "" : ct[i]; dc.extension = nullptr; dc.can_decode = dec_can; dc.decode = dec_decode;
      bool err = false; jmp_buf jb; tl_jmp = &jb;
      if (setjmp(jb)) err = true; else mjp_registerDecoder(&dc);
      tl_jmp = nullptr;
      if (err && i != empty_at) violation("spurious-failure", "registration of a decoder for %s failed: %s", ct[i], tl_err);
    }
    for (int i = 0; i < nd; i++) {
      if (i == empty_at) continue;
      const mjpDecoder* f = mjp_findDecoder(&res, ct[i]);
      if (!f) violation("lost-object", "the decoder registered for content type %s (number %d of %d) cannot be found%s", ct[i], i, nd, empty_at >= 0 && empty_at < i ? "; a decoder with an empty content type was registered before it" : "");
      else if (!f->content_type || strcmp(f->content_type, ct[i])) violation("wrong-object", "lookup of the decoder for %s returned the one for %s", ct[i], f->content_type ? f->content_type : "(null)");
    }
    probe("sequential_decoder_histories"); if (empty_at >= 0) probe("decoder_histories_with_an_empty_content_type");
  }
  run_end();
}

int main(int argc, char** argv) {
  no_aslr(argv);
  g_property = "C40";
  parse_args(argc, argv);
  install_handlers();
  engine_warmup();
  setvbuf(stdout, 0, _IOLBF, 0);
  mju_user_error = on_error;
  mju_user_warning = on_warning;
  // keys come in pairs that differ in one punctuation character only ('[' / '{', '\\' / '|', ']' / '}', '^' / '~', '@' / '`': the characters that
  // differ by the same bit as upper and lower case letters): distinct keys under the documented case-insensitive comparison
  { static const char* pairs[] = {"[{", "\\|", "]}", "^~", "@`"};
    for (int k = 0; k < NKEY; k++) { int j = k / 2; snprintf(keyname[k], sizeof keyname[k], "key%c%c%d%cz", 'a' + j % 26, 'a' + (j * 7) % 26, j, pairs[j % 5][k % 2]); } }
  std::string mode = g_args.opt.count("mode") ? g_args.opt["mode"] : "table";
  if (mode == "table") {
    for (uint64_t s = g_args.seed0; s < g_args.seed0 + g_args.n; s++) run_table(s);
  } else {
    // process-global singletons: one forked child per run; the child reports through a pipe
    for (uint64_t s = g_args.seed0; s < g_args.seed0 + g_args.n; s++) {
      if (over_budget()) { probe("stopped_by_time_budget"); break; }
      int fd[2];
      if (pipe(fd)) return 2;
      fflush(stdout);
      pid_t pid = fork();
      if (pid == 0) {
        close(fd[0]);
        g_budget_exit = false;
        run_api(s);
        struct { vsim::Config c; vsim::Stats st; uint64_t h; } rep{g_cfg, vsim::stats(), vsim::trace_hash()};
        if (write(fd[1], &rep, sizeof rep) != sizeof rep) _exit(3);
        _exit(0);
      }
      close(fd[1]);
      struct { vsim::Config c; vsim::Stats st; uint64_t h; } rep;
      ssize_t got = read(fd[0], &rep, sizeof rep);
      close(fd[0]);
      int status = 0;
      waitpid(pid, &status, 0);
      if (WIFEXITED(status) && WEXITSTATUS(status) == 10) return 10;      // child printed FAIL and wrote the fail file
      if (!WIFEXITED(status) || WEXITSTATUS(status) != 0 || got != sizeof rep) { fprintf(stderr, "harness: child for seed %" PRIu64 " ended with status %d\n", s, status); return 2; }
      g_agg.add(rep.c, rep.st, rep.h);
      if (g_agg.runs <= 3) printf("SAMPLE {\"seed\":%" PRIu64 ",\"trace_hash\":\"%016" PRIx64 "\",\"points\":%" PRIu64 ",\"switches\":%" PRIu64 ",\"mode\":\"api\"}\n", s, rep.h, rep.st.points, rep.st.switches);
    }
  }
  g_agg.print(stdout);
  return 0;
}
