// Common scaffolding for E1 (vsim) drivers: CLI, scenario PRNG, swarm configuration, failure
// files, replay input, aggregated statistics.  One seed = one exactly repeatable run.
#pragma once
#include <fcntl.h>
#include <malloc.h>
#include <signal.h>
#include <sys/mman.h>
#include <sys/personality.h>
#include <time.h>
#include <unistd.h>

#include <cinttypes>
#include <cstdarg>
#include <cstdint>
#include <cstdio>
#include <cstdlib>
#include <cstring>
#include <map>
#include <new>
#include <set>
#include <string>
#include <vector>

#include <mujoco/mujoco.h>

#include "vsim_rt.h"

namespace sd {
inline void sd_reserve_fixed_heap();
inline void sd_activate_fixed_heap();

struct Rng {
  uint64_t s;
  explicit Rng(uint64_t seed) : s(seed * 0xD1342543DE82EF95ULL + 0x9E3779B97F4A7C15ULL) { for (int i = 0; i < 4; i++) next(); }
  uint64_t next() { s ^= s << 13; s ^= s >> 7; s ^= s << 17; return s * 0x2545F4914F6CDD1DULL; }
  int below(int n) { return n <= 1 ? 0 : (int)((next() >> 11) % (uint64_t)n); }
  int range(int lo, int hi) { return lo + below(hi - lo + 1); }
  double unit() { return (double)(next() >> 11) / 9007199254740992.0; }
  bool chance(double p) { return unit() < p; }
  template <class T> const T& pick(const std::vector<T>& v) { return v[below((int)v.size())]; }
};

struct Args {
  uint64_t seed0 = 0, n = 1;
  std::map<std::string, long> cfg;      // explicit overrides (replay): key=value
  std::vector<vsim::Decision> dec; bool have_dec = false;
  std::set<int> drop;                   // scenario op indices removed by the minimiser
  std::string faildir = ".";
  bool log = false;
  bool verbose = false;
  std::map<std::string, std::string> opt;  // driver-specific string options
};

inline Args g_args;
inline uint64_t g_seed;              // seed of the run in progress
inline std::string g_scenario;       // one-line description of the scenario in progress
inline vsim::Config g_cfg;
inline const char* g_property = "?";
inline bool g_in_run = false;
inline char g_cfg_str[512];

inline std::string cfg_string(const vsim::Config& c) {
  char b[512];
  snprintf(b, sizeof b,
           "policy=%d,bb_ppm=%d,ls_ppm=%d,sticky_ppm=%d,pct_depth=%d,pct_len=%" PRIu64 ",starve_victim=%d,starve_len=%" PRIu64
           ",spurious_ppm=%d,hw=%u",
           c.policy, c.bb_ppm, c.ls_ppm, c.sticky_ppm, c.pct_depth, c.pct_len, c.starve_victim, c.starve_len, c.spurious_ppm,
           c.hw_concurrency);
  return b;
}
inline void apply_overrides(vsim::Config& c) {
  for (auto& [k, v] : g_args.cfg) {
    if (k == "policy") c.policy = (int)v; else if (k == "bb_ppm") c.bb_ppm = (int)v; else if (k == "ls_ppm") c.ls_ppm = (int)v;
    else if (k == "sticky_ppm") c.sticky_ppm = (int)v; else if (k == "pct_depth") c.pct_depth = (int)v;
    else if (k == "pct_len") c.pct_len = (uint64_t)v; else if (k == "starve_victim") c.starve_victim = (int)v;
    else if (k == "starve_len") c.starve_len = (uint64_t)v; else if (k == "spurious_ppm") c.spurious_ppm = (int)v;
    else if (k == "hw") c.hw_concurrency = (unsigned)v;
  }
}
// swarm: every run draws its own scheduling policy and preemption granularity
inline vsim::Config swarm(Rng& r, const std::vector<int>& bb_choices, const std::vector<int>& ls_choices, uint64_t est_len) {
  vsim::Config c;
  c.seed = r.next();
  c.policy = r.below(vsim::P_NPOLICY);
  c.bb_ppm = r.pick(bb_choices);
  c.ls_ppm = ls_choices.empty() ? 0 : r.pick(ls_choices);
  c.sticky_ppm = r.pick(std::vector<int>{50000, 200000, 500000});
  c.pct_depth = r.range(1, 4);
  c.pct_len = est_len ? est_len : 200;
  c.starve_victim = r.range(0, 3);
  c.starve_len = (uint64_t)r.range(20, 2000);
  c.spurious_ppm = r.chance(0.3) ? 50000 : 0;
  c.hw_concurrency = 2u * (unsigned)r.range(1, 8);
  c.keep_log = g_args.log;
  apply_overrides(c);
  return c;
}

inline void parse_kv(const char* s, std::map<std::string, long>& out) {
  std::string t(s);
  size_t i = 0;
  while (i < t.size()) {
    size_t j = t.find(',', i); if (j == std::string::npos) j = t.size();
    std::string kv = t.substr(i, j - i);
    size_t e = kv.find('=');
    if (e != std::string::npos) out[kv.substr(0, e)] = atol(kv.c_str() + e + 1);
    i = j + 1;
  }
}
inline void parse_args(int argc, char** argv) {
  for (int i = 1; i < argc; i++) {
    std::string a = argv[i];
    auto nextarg = [&]() -> const char* { return i + 1 < argc ? argv[++i] : ""; };
    if (a == "--seed") g_args.seed0 = strtoull(nextarg(), 0, 10);
    else if (a == "--n") g_args.n = strtoull(nextarg(), 0, 10);
    else if (a == "--cfg") parse_kv(nextarg(), g_args.cfg);
    else if (a == "--faildir") g_args.faildir = nextarg();
    else if (a == "--log") g_args.log = true;
    else if (a == "-v") g_args.verbose = true;
    else if (a == "--drop") { std::string t = nextarg(); char* p = t.data(); while (*p) { g_args.drop.insert((int)strtol(p, &p, 10)); if (*p == ',') p++; } }
    else if (a == "--dec") {
      FILE* f = fopen(nextarg(), "r");
      if (!f) { fprintf(stderr, "cannot open decision file\n"); exit(2); }
      unsigned long long o; int v;
      while (fscanf(f, "%llu:%d", &o, &v) == 2) g_args.dec.push_back({o, v});
      fclose(f); g_args.have_dec = true;
    } else if (a.rfind("--", 0) == 0 && i + 1 < argc) g_args.opt[a.substr(2)] = argv[++i];
  }
}
// classes listed with --tolerate (the property's recorded findings; '*' at the end matches a prefix): a driver that can carry on
// after such a finding asks is_tolerated() and counts it (probe tolerated_<class>) instead of ending the run
inline bool is_tolerated(const char* cls) {
  auto it = g_args.opt.find("tolerate");
  if (it == g_args.opt.end()) return false;
  const std::string& t = it->second; size_t i = 0;
  while (i < t.size()) {
    size_t j = t.find(',', i); if (j == std::string::npos) j = t.size();
    std::string k = t.substr(i, j - i);
    if (!k.empty() && (k == cls || (k.back() == '*' && !strncmp(cls, k.c_str(), k.size() - 1)))) return true;
    i = j + 1;
  }
  return false;
}
inline long opt_long(const char* k, long dflt) { auto it = g_args.opt.find(k); return it == g_args.opt.end() ? dflt : atol(it->second.c_str()); }

// ------------------------------------------------------------------ failure reporting
__attribute__((no_sanitize("thread"))) inline void write_fail_file(const char* cls, const char* msg) {
  // raw syscalls and stack buffers only: this may run from a signal handler after heap corruption
  static char path[1024];
  static char buf[8192];
  snprintf(path, sizeof path, "%s/fail_%s_%" PRIu64 ".txt", g_args.faildir.c_str(), g_property, g_seed);
  int fd = open(path, O_WRONLY | O_CREAT | O_TRUNC, 0644);
  if (fd >= 0) {
    int n = snprintf(buf, sizeof buf, "property=%s\nclass=%s\nmsg=%s\nseed=%" PRIu64 "\ncfg=%s\nscenario=%s\ndrop=", g_property, cls, msg,
                     g_seed, g_cfg_str, g_scenario.c_str());
    if (write(fd, buf, n) < 0) {}
    for (int d : g_args.drop) { n = snprintf(buf, sizeof buf, "%d,", d); if (write(fd, buf, n) < 0) {} }
    if (write(fd, "\ndec=", 5) < 0) {}
    size_t nd = vsim::ndecisions();
    for (size_t i = 0; i < nd; i++) { vsim::Decision d = vsim::decision_at(i); n = snprintf(buf, sizeof buf, "%" PRIu64 ":%d ", d.opp, d.val); if (write(fd, buf, n) < 0) {} }
    if (write(fd, "\nlog:\n", 6) < 0) {}
    vsim::dump_log(fd);
    close(fd);
  }
  int n = snprintf(buf, sizeof buf, "FAIL seed=%" PRIu64 " class=%s file=%s msg=%s\n", g_seed, cls, path, msg);
  fflush(stdout);
  if (write(1, buf, n) < 0) {}
}
// a property violation detected by the harness oracle (not by the scheduler)
[[noreturn]] inline void violation(const char* cls, const char* fmt, ...) {
  char b[1024];
  va_list ap; va_start(ap, fmt); vsnprintf(b, sizeof b, fmt, ap); va_end(ap);
  vsim::fail(cls, b);
}
inline void on_signal(int sig, siginfo_t*, void*) {
  char b[64]; snprintf(b, sizeof b, "signal %d", sig);
  if (g_in_run) { write_fail_file("crash", b); _exit(10); }
  _exit(128 + sig);
}
inline void install_handlers() {
  sd_activate_fixed_heap();   // every driver calls this after it has parsed its arguments and before it touches the code under test
  static char altstack[1 << 16];
  stack_t ss{}; ss.ss_sp = altstack; ss.ss_size = sizeof altstack; sigaltstack(&ss, nullptr);
  struct sigaction sa{}; sa.sa_sigaction = on_signal; sa.sa_flags = SA_SIGINFO | SA_ONSTACK | SA_NODEFER;
  for (int s : {SIGSEGV, SIGBUS, SIGFPE, SIGILL, SIGABRT}) sigaction(s, &sa, nullptr);
}
// fixed addresses: nothing address-dependent may differ between a run and its replay
inline void no_aslr(char** argv) {
  // one malloc arena, no mmap/munmap/trim per allocation: deterministic addresses, and munmap is what
  // serialises many concurrent driver processes in this VM (measured 1.1 ms per call under load)
  mallopt(M_ARENA_MAX, 1);
  mallopt(M_MMAP_THRESHOLD, 1 << 30);
  mallopt(M_TRIM_THRESHOLD, 1 << 30);
  mallopt(M_TOP_PAD, 64 << 20);
  int p = personality(0xffffffff);
  if (p != -1 && !(p & ADDR_NO_RANDOMIZE)) {
    if (personality(p | ADDR_NO_RANDOMIZE) != -1 && !getenv("VSIM_NOREEXEC")) { setenv("VSIM_NOREEXEC", "1", 1); execv("/proc/self/exe", argv); }
  }
  sd_reserve_fixed_heap();
}

// ------------------------------------------------------------------ caching allocator for mju_malloc
// Blocks are never returned to the C library: large mmap/munmap (and, under TSan, the shadow reset that
// goes with them) per mj_makeData/mj_deleteData made 16 concurrent driver processes ~18x slower.
// The allocator stands for the C library's (internally locked) malloc: no scheduling point inside it, its own
// bookkeeping is invisible to TSan, and a recycled block carries a release->acquire edge from free to the next
// malloc, as the real allocator's lock would give.
#ifdef VSIM_TSAN
extern "C" void __tsan_acquire(void*);
extern "C" void __tsan_release(void*);
#define SD_TSAN_ACQ(p) __tsan_acquire(p)
#define SD_TSAN_REL(p) __tsan_release(p)
#else
#define SD_TSAN_ACQ(p) ((void)0)
#define SD_TSAN_REL(p) ((void)0)
#endif
// Backing store with addresses that depend only on the sequence of requests made by the code under test: one region reserved
// before the command line is parsed (address space randomisation is off, so the kernel places it at the same address in every
// process), handed out by a bump pointer once the harness has finished its own start-up allocations.  Needed because some code
// under test keeps objects in containers keyed or hashed by pointer (the asset cache's unordered_set<mjCAsset*>): the number of
// basic blocks it executes - and with it the position of every later preemption - then depends on heap addresses, and those moved
// with the length of the harness's own arguments (--faildir, --dec ...), which made a replay diverge from the recorded run.
struct FixedHeap {
  static inline char* base = nullptr;
  static inline size_t top = 0;
  static inline bool active = false;
  static constexpr size_t kSize = (size_t)24 << 30;
  static void reserve() {
#ifndef VSIM_TSAN
    void* p = mmap(nullptr, kSize, PROT_READ | PROT_WRITE, MAP_PRIVATE | MAP_ANONYMOUS | MAP_NORESERVE, -1, 0);
    if (p != MAP_FAILED) base = (char*)p;
#endif
  }
  static void activate() { if (base) active = true; }
  __attribute__((no_sanitize("thread"), no_sanitize("coverage"))) static bool owns(const void* p) { return base && (const char*)p >= base && (const char*)p < base + kSize; }
  __attribute__((no_sanitize("thread"), no_sanitize("coverage"), noinline)) static void* grab(size_t n) {
    n = (n + 63) & ~(size_t)63;
    if (!active) return aligned_alloc(64, n);
    if (top + n > kSize) { static const char msg[] = "harness: fixed heap exhausted\n"; (void)!write(2, msg, sizeof msg - 1); _exit(2); }   // (blocks from elsewhere would be misrouted on delete)
    void* p = base + top; top += n; return p;
  }
};
struct CacheAlloc {
  struct Hdr { size_t sz; Hdr* next; char pad[48]; };
  static_assert(sizeof(Hdr) == 64);
  static inline Hdr* bins[64];
  static inline bool poison_on_free = false;
  static inline volatile int lock_ = 0;     // only ever contended by a thread that is not under the scheduler (none is expected)
  __attribute__((no_sanitize("thread"), no_sanitize("coverage"))) static void lock() { while (__sync_lock_test_and_set(&lock_, 1)) {} }
  __attribute__((no_sanitize("thread"), no_sanitize("coverage"))) static void unlock() { __sync_lock_release(&lock_); }
  __attribute__((no_sanitize("thread"), no_sanitize("coverage"))) static int bin(size_t n) { int b = 0; size_t c = 64; while (c < n) { c <<= 1; b++; } return b; }
  __attribute__((no_sanitize("thread"), no_sanitize("coverage"), noinline)) static void* alloc(size_t n) {
    int b = bin(n ? n : 1);
    lock();
    Hdr* h = bins[b];
    if (h) { bins[b] = h->next; SD_TSAN_ACQ(&bins[b]); }
    else { h = (Hdr*)FixedHeap::grab(sizeof(Hdr) + ((size_t)64 << b)); if (!h) { unlock(); return nullptr; } }
    h->sz = n; h->next = nullptr;
    unlock();
    return (char*)h + sizeof(Hdr);
  }
  __attribute__((no_sanitize("thread"), no_sanitize("coverage"), noinline)) static void release(void* p) {
    if (!p) return;
    Hdr* h = (Hdr*)((char*)p - sizeof(Hdr));
    int b = bin(h->sz ? h->sz : 1);
    if (poison_on_free) { size_t n = h->sz < 65536 ? h->sz : 65536; unsigned char* c = (unsigned char*)p; for (size_t i = 0; i < n; i++) c[i] = 0xFF; }   // use-after-free becomes visible garbage (NaN / -1)
    lock();
    SD_TSAN_REL(&bins[b]);
    h->next = bins[b]; bins[b] = h;
    unlock();
  }
};
inline void sd_reserve_fixed_heap() { FixedHeap::reserve(); }
inline void sd_activate_fixed_heap() { FixedHeap::activate(); }
// C++ allocations (the compiler's objects and containers, the thread pool, the scheduler's own bookkeeping) take the same route once
// the fixed heap is active; blocks handed out before that (by the C library) are recognised by address and returned to it.
#ifndef VSIM_TSAN
#define SD_NEW_ATTR __attribute__((no_sanitize("coverage"), noinline))
SD_NEW_ATTR inline void* sd_new(size_t n, size_t al) {
  void* p = (FixedHeap::active && al <= 64) ? CacheAlloc::alloc(n) : (al > 16 ? aligned_alloc(al, (n + al - 1) / al * al) : malloc(n ? n : 1));
  return p;
}
SD_NEW_ATTR inline void sd_delete(void* p) {
  if (!p) return;
  if (FixedHeap::owns(p)) { bool po = CacheAlloc::poison_on_free; CacheAlloc::poison_on_free = false; CacheAlloc::release(p); CacheAlloc::poison_on_free = po; }
  else free(p);
}
#endif
inline void use_caching_alloc() { mju_user_malloc = CacheAlloc::alloc; mju_user_free = CacheAlloc::release; }

// ------------------------------------------------------------------ aggregated statistics
struct Agg {
  uint64_t runs = 0, points = 0, opportunities = 0, switches = 0, preempt_bb = 0, preempt_ls = 0, parks = 0, unpark_rounds = 0,
           blocks = 0, spurious = 0, max_runnable = 0, max_threads = 0, sim_ns = 0, max_opportunities = 0;
  uint64_t kind[vsim::K_NKINDS] = {0};
  uint64_t policy[vsim::P_NPOLICY] = {0};
  std::set<uint64_t> hashes;          // distinct traces of NON-TRIVIAL runs: >=2 threads runnable at once and >=1 switch
  uint64_t nontrivial = 0;
  std::map<std::string, uint64_t> probes;
  uint64_t hash_of_hashes = 0xcbf29ce484222325ULL;
  void add(const vsim::Config& c, const vsim::Stats& s, uint64_t h) {
    runs++; points += s.points; opportunities += s.opportunities; switches += s.switches; preempt_bb += s.preempt_bb;
    preempt_ls += s.preempt_ls; parks += s.parks; unpark_rounds += s.unpark_rounds; blocks += s.blocks; spurious += s.spurious;
    sim_ns += s.sim_ns;
    if (s.max_runnable > max_runnable) max_runnable = s.max_runnable;
    if (s.opportunities > max_opportunities) max_opportunities = s.opportunities;
    if (s.threads > max_threads) max_threads = s.threads;
    for (int i = 0; i < vsim::K_NKINDS; i++) kind[i] += s.kind_count[i];
    policy[c.policy % vsim::P_NPOLICY]++;
    if (s.max_runnable >= 2 && s.switches >= 1) { hashes.insert(h); nontrivial++; }
    hash_of_hashes = (hash_of_hashes ^ h) * 0x100000001b3ULL;
  }
  void print(FILE* f) {
    fprintf(f, "SUMMARY {\"runs\":%" PRIu64 ",\"points\":%" PRIu64 ",\"opportunities\":%" PRIu64 ",\"switches\":%" PRIu64
               ",\"preempt_bb\":%" PRIu64 ",\"preempt_ls\":%" PRIu64 ",\"parks\":%" PRIu64 ",\"unpark_rounds\":%" PRIu64
               ",\"blocks\":%" PRIu64 ",\"spurious\":%" PRIu64 ",\"max_runnable\":%" PRIu64 ",\"max_threads\":%" PRIu64
               ",\"max_opportunities\":%" PRIu64 ",\"sim_ns\":%" PRIu64 ",\"distinct_traces\":%zu,\"nontrivial_runs\":%" PRIu64 ",\"digest\":\"%016" PRIx64 "\"",
            runs, points, opportunities, switches, preempt_bb, preempt_ls, parks, unpark_rounds, blocks, spurious, max_runnable,
            max_threads, max_opportunities, sim_ns, hashes.size(), nontrivial, hash_of_hashes);
    auto hf = g_args.opt.find("hashfile");
    if (hf != g_args.opt.end()) {
      FILE* h = fopen((hf->second + std::to_string(g_args.seed0)).c_str(), "wb");
      if (h) { for (uint64_t x : hashes) fwrite(&x, 8, 1, h); fclose(h); }
    }
    static const char* kn[] = {"start", "aload", "astore", "armw", "await", "anotify", "mlock", "munlock", "cvwait", "cvnotify",
                               "spawn", "join", "exit", "preempt", "user", "yield", "fence", "sleep", "choose", "once"};
    fprintf(f, ",\"kinds\":{");
    for (int i = 0, first = 1; i < vsim::K_NKINDS; i++) if (kind[i]) { fprintf(f, "%s\"%s\":%" PRIu64, first ? "" : ",", kn[i], kind[i]); first = 0; }
    fprintf(f, "},\"policies\":[%" PRIu64 ",%" PRIu64 ",%" PRIu64 ",%" PRIu64 "],\"probes\":{", policy[0], policy[1], policy[2], policy[3]);
    int first = 1;
    for (auto& [k, v] : probes) { fprintf(f, "%s\"%s\":%" PRIu64, first ? "" : ",", k.c_str(), v); first = 0; }
    fprintf(f, "}}\n");
    fflush(f);
  }
};
inline Agg g_agg;
inline void probe(const char* name, uint64_t n = 1) { g_agg.probes[name] += n; }

// process-global lazy initialisation in the engine (log configuration from the environment) must not
// depend on which run of a batch happens to touch it first: trigger it before the first run
inline void engine_warmup() {
  auto w = mju_user_warning;
  mju_user_warning = [](const char*) {};
  mju_warning("vsim warm-up");
  mju_user_warning = w;
}

// wall-clock budget of a shard (--budget seconds): checked between runs only (it decides how many seeds a shard gets through, never what
// happens inside a run); out of budget = print the summary of the completed runs and exit 0
inline double now_s() { timespec ts; clock_gettime(CLOCK_MONOTONIC, &ts); return ts.tv_sec + 1e-9 * ts.tv_nsec; }
inline double g_t0 = now_s();
inline bool g_budget_exit = true;     // a forked child of a driver leaves the decision to its parent
inline bool over_budget() { auto it = g_args.opt.find("budget"); return it != g_args.opt.end() && atof(it->second.c_str()) > 0 && now_s() - g_t0 > atof(it->second.c_str()); }
// begin/end one simulated run
inline void run_begin(uint64_t seed, const vsim::Config& c) {
  if (g_budget_exit && over_budget()) { g_agg.probes["stopped_by_time_budget"]++; g_agg.print(stdout); fflush(stdout); exit(0); }
  g_seed = seed; g_cfg = c;
  snprintf(g_cfg_str, sizeof g_cfg_str, "%s", cfg_string(c).c_str());
  if (g_args.have_dec) vsim::set_replay(g_args.dec.data(), g_args.dec.size());
  g_in_run = true;
  vsim::begin(c);
}
inline void run_end() {
  vsim::end();
  g_in_run = false;
  g_agg.add(g_cfg, vsim::stats(), vsim::trace_hash());
  if (g_args.verbose || g_args.log)
    printf("RUN seed=%" PRIu64 " hash=%016" PRIx64 " points=%" PRIu64 " switches=%" PRIu64 " cfg=%s scenario=%s\n", g_seed,
           vsim::trace_hash(), vsim::stats().points, vsim::stats().switches, cfg_string(g_cfg).c_str(), g_scenario.c_str());
  if (g_agg.runs <= 3)
    printf("SAMPLE {\"seed\":%" PRIu64 ",\"trace_hash\":\"%016" PRIx64 "\",\"points\":%" PRIu64 ",\"switches\":%" PRIu64
           ",\"cfg\":\"%s\",\"scenario\":\"%s\"}\n", g_seed, vsim::trace_hash(), vsim::stats().points, vsim::stats().switches,
           g_cfg_str, g_scenario.c_str());
  if (g_args.log) { fflush(stdout); vsim::dump_log(1); }
  auto dd = g_args.opt.find("dumpdec");
  if (dd != g_args.opt.end()) {   // self-test: record the decision list of a passing run
    FILE* f = fopen(dd->second.c_str(), "w");
    if (f) { size_t nd = vsim::ndecisions(); for (size_t i = 0; i < nd; i++) { vsim::Decision d = vsim::decision_at(i); fprintf(f, "%" PRIu64 ":%d ", d.opp, d.val); } fclose(f); }
  }
}
}  // namespace sd

#ifndef VSIM_TSAN
// replacement allocation functions (one translation unit per driver includes this header)
void* operator new(std::size_t n) { void* p = sd::sd_new(n, 16); if (!p) throw std::bad_alloc(); return p; }
void* operator new[](std::size_t n) { void* p = sd::sd_new(n, 16); if (!p) throw std::bad_alloc(); return p; }
void* operator new(std::size_t n, const std::nothrow_t&) noexcept { return sd::sd_new(n, 16); }
void* operator new[](std::size_t n, const std::nothrow_t&) noexcept { return sd::sd_new(n, 16); }
void* operator new(std::size_t n, std::align_val_t a) { void* p = sd::sd_new(n, (size_t)a); if (!p) throw std::bad_alloc(); return p; }
void* operator new[](std::size_t n, std::align_val_t a) { void* p = sd::sd_new(n, (size_t)a); if (!p) throw std::bad_alloc(); return p; }
void* operator new(std::size_t n, std::align_val_t a, const std::nothrow_t&) noexcept { return sd::sd_new(n, (size_t)a); }
void* operator new[](std::size_t n, std::align_val_t a, const std::nothrow_t&) noexcept { return sd::sd_new(n, (size_t)a); }
void operator delete(void* p) noexcept { sd::sd_delete(p); }
void operator delete[](void* p) noexcept { sd::sd_delete(p); }
void operator delete(void* p, std::size_t) noexcept { sd::sd_delete(p); }
void operator delete[](void* p, std::size_t) noexcept { sd::sd_delete(p); }
void operator delete(void* p, std::align_val_t) noexcept { sd::sd_delete(p); }
void operator delete[](void* p, std::align_val_t) noexcept { sd::sd_delete(p); }
void operator delete(void* p, std::size_t, std::align_val_t) noexcept { sd::sd_delete(p); }
void operator delete[](void* p, std::size_t, std::align_val_t) noexcept { sd::sd_delete(p); }
void operator delete(void* p, const std::nothrow_t&) noexcept { sd::sd_delete(p); }
void operator delete[](void* p, const std::nothrow_t&) noexcept { sd::sd_delete(p); }
#endif

extern "C" void vsim_fail_hook(const char* cls, const char* msg) { sd::write_fail_file(cls, msg); }
// TSan-in-the-loop: any report is a violation of the run in progress
// (the hook runs inside TSan's report machinery: no library calls here, just raise the flag)
extern "C" __attribute__((no_sanitize("thread"), no_sanitize("coverage"))) void __tsan_on_report(void*) { vsim_race_flag = 1; }
extern "C" __attribute__((no_sanitize("thread"), no_sanitize("coverage"))) const char* __tsan_default_options() { return "report_signal_unsafe=0:exitcode=66:second_deadlock_stack=1:history_size=4"; }
