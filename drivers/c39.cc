// C39: virtual file system operations have set semantics.
// Seeded histories of add / delete / lookup / read against a dictionary reference model.  Mode "plain" uses
// distinct lower-case names; mode "alias" adds names that differ only in case or path separator and asserts
// only what the statement fixes regardless of which spellings the implementation treats as equal.
#include <sys/stat.h>

#include "natdrv.h"

using namespace nd;

enum { OP_ADDBUF, OP_ADDFILE, OP_DEL, OP_HASBUF, OP_HASFILE, OP_READ, OP_RESET, OP_N };
static const char* kOp[] = {"addbuf", "addfile", "del", "hasbuf", "hasfile", "read", "reset"};
struct Name { std::string name; int cls; };     // cls: alias class (names that may be the same entry)
struct Entry { int state = 0; std::string bytes; int via = 0; };   // via: 1 added as buffer, 2 added from a file
static bool has_upper(const std::string& s) { for (char c : s) if (c >= 'A' && c <= 'Z') return true; return false; }   // 0 absent, 1 present with known bytes, 2 unknown

static std::string content(Rng& r) {
  int n = r.below(5) == 0 ? 0 : r.range(1, 40);
  std::string s;
  for (int i = 0; i < n; i++) s += (char)r.range(0, 255);
  return s;
}

int main(int argc, char** argv) {
  setup(argc, argv, "C39");
  std::string mode = opt_str("mode", "plain");
  std::string dir = g_args.faildir + "/vfsfiles_" + std::to_string(getpid());
  mkdir(dir.c_str(), 0755);
  if (mode == "dirs") {
    // Buffers mounted under paths with directories, several of them sharing a base name.  Entries are keyed by the exact path; what the
    // implementation does for a path that is NOT exactly present (legacy base-name fallback) is not part of the property and is never
    // asserted: deletes are issued only for exactly-present paths, or for paths whose base name is present nowhere.
    static const char* nm[] = {"vx.bin", "d1/vx.bin", "d2/vx.bin", "vy.bin", "d1/vy.bin", "d1/sub/vx.bin", "vz.bin", "d2/sub/vz.bin"};
    const int N = 8;
    auto base = [](const std::string& p) { size_t i = p.find_last_of('/'); return i == std::string::npos ? p : p.substr(i + 1); };
    for (uint64_t s = g_args.seed0; s < g_args.seed0 + g_args.n; s++) {
      begin_case(s);
      Rng r(s);
      std::map<std::string, std::string> model;
      mjVFS vfs; mj_defaultVFS(&vfs);
      int nops = r.range(5, 40);
      uint64_t sig = fnv_str(mode);
      g_scenario = "dirs:";
      for (int k = 0; k < nops; k++) {
        int op = r.below(100); int ni = r.below(N); std::string c = content(r);
        if (g_args.drop.count(k)) continue;
        std::string name = nm[ni];
        bool present = model.count(name) > 0;
        bool base_anywhere = false; for (auto& kv : model) if (base(kv.first) == base(name)) base_anywhere = true;
        const char* opn = op < 35 ? "addbuf" : op < 60 ? "del" : op < 72 ? "hasbuf" : op < 97 ? "read" : "reset";
        char b[80]; snprintf(b, sizeof b, " %s(%s)", opn, name.c_str()); if (g_scenario.size() < 1300) g_scenario += b;
        sig = fnv(&op, sizeof op, fnv(&ni, sizeof ni, sig));
        if (op < 35) {
          int rc = mj_addBufferVFS(&vfs, name.c_str(), c.data(), (int)c.size());
          if (present && rc != 2) violation("repeated-add", "adding existing path %s returned %d instead of the repeated-name code 2", name.c_str(), rc);
          if (!present && rc != 0) violation("phantom-entry", "adding path %s (not present; other entries: %zu) returned %d", name.c_str(), model.size(), rc);
          if (rc == 0) model[name] = c;
          count("adds");
        } else if (op < 60) {
          if (!present && base_anywhere) continue;          // outcome depends on the legacy fallback: not issued
          int rc = mj_deleteFileVFS(&vfs, name.c_str());
          if (present && rc != 0) violation("delete-failed", "deleting present path %s returned %d", name.c_str(), rc);
          if (!present && rc != -1) violation("delete-absent", "deleting path %s, whose base name is present nowhere, returned %d", name.c_str(), rc);
          if (present) model.erase(name);
          count("deletes");
        } else if (op < 72) {
          int rc = mj_containsBufferVFS(&vfs, name.c_str());
          if (present && rc != 1) violation("lost-file", "mj_containsBufferVFS(%s)=%d for a present path", name.c_str(), rc);
          if (!present && rc != 0) violation("phantom-entry", "mj_containsBufferVFS(%s)=%d for a path that is not present", name.c_str(), rc);
        } else if (op < 97) {
          if (!present) continue;
          char err[300] = ""; mjResource* res = nullptr;
          bool raised = ND_GUARD({ res = mju_openResource("", name.c_str(), &vfs, err, sizeof err); });
          if (raised || !res) violation("lost-file", "present path %s cannot be opened: %s", name.c_str(), raised ? g_lasterr : err);
          const void* buf = nullptr; int n = mju_readResource(res, &buf);
          const std::string& want = model[name];
          if (n != (int)want.size() || (n > 0 && memcmp(buf, want.data(), n))) violation("wrong-bytes", "reading %s returned %d bytes that differ from the %zu bytes added under that path", name.c_str(), n, want.size());
          mju_closeResource(res);
          count("reads_verified");
        } else { mj_deleteVFS(&vfs); mj_defaultVFS(&vfs); model.clear(); count("resets"); }
        // sweep: every path of the model is present and every other path is absent (exact-key view)
        for (int j = 0; j < N; j++) { int rc = mj_containsBufferVFS(&vfs, nm[j]); if ((rc == 1) != (model.count(nm[j]) > 0)) violation(rc == 1 ? "phantom-entry" : "lost-file", "after %s(%s): mj_containsBufferVFS(%s)=%d but the reference %s it", opn, name.c_str(), nm[j], rc, model.count(nm[j]) ? "holds" : "does not hold"); }
      }
      mj_deleteVFS(&vfs);
      signature(sig); sample(g_scenario);
      end_case();
    }
    print_summary();
    return 0;
  }
  for (uint64_t s = g_args.seed0; s < g_args.seed0 + g_args.n; s++) {
    begin_case(s);
    ND_CASE_GUARD();
    Rng r(s);
    std::vector<Name> names;
    if (mode == "plain") {
      const char* nm[] = {"va.bin", "vb.xml", "vc.txt", "vd.obj", "ve.png", "vf.dat"};
      for (int i = 0; i < 6; i++) names.push_back({nm[i], i});
    } else {
      names = {{"va.xml", 0}, {"VA.XML", 0}, {"Va.Xml", 0}, {"sub/vb.txt", 1}, {"sub\\vb.txt", 1}, {"vb.txt", 1}, {"SUB/VB.TXT", 1}, {"vc.bin", 2}};
    }
    std::vector<Entry> model(names.size());
    mjVFS vfs; mj_defaultVFS(&vfs);
    int nops = r.range(5, 40);
    uint64_t sig = fnv_str(mode);
    g_scenario = mode + ":";
    for (int k = 0; k < nops; k++) {
      int op = r.below(100);
      op = op < 28 ? OP_ADDBUF : op < 38 ? OP_ADDFILE : op < 56 ? OP_DEL : op < 68 ? OP_HASBUF : op < 74 ? OP_HASFILE : op < 97 ? OP_READ : OP_RESET;
      int ni = r.below((int)names.size());
      std::string c = content(r);
      int filemode = r.below(4);   // present / absent / empty / present
      if (g_args.drop.count(k)) continue;
      const std::string& nm = names[ni].name;
      Entry& e = model[ni];
      char b[80]; snprintf(b, sizeof b, " %s(%s)", kOp[op], nm.c_str());
      if (g_scenario.size() < 1300) g_scenario += b;
      sig = fnv(&op, sizeof op, fnv(&ni, sizeof ni, sig));
      // "absent" can only be asserted when no spelling of the same alias class may be present
      bool strict = mode == "plain";   // alias mode asserts only read-your-own-add, documented codes, no crash
      bool absent = strict && e.state == 0;
      for (size_t j = 0; j < names.size(); j++) if (names[j].cls == names[ni].cls && model[j].state != 0) absent = false;
      bool present = strict && e.state == 1;
      // alias mode: an add is "own and unshadowed" only if no spelling of the class could be present before it
      bool class_clear = true;
      for (size_t j = 0; j < names.size(); j++) if (names[j].cls == names[ni].cls && model[j].state != 0) class_clear = false;
      auto touch_aliases = [&]() { for (size_t j = 0; j < names.size(); j++) if ((int)j != ni && names[j].cls == names[ni].cls) model[j].state = 2; };
      switch (op) {
        case OP_ADDBUF: {
          int rc = mj_addBufferVFS(&vfs, nm.c_str(), c.data(), (int)c.size());
          if (rc != 0 && rc != 2 && rc != -1) violation("bad-code", "mj_addBufferVFS(%s) returned %d", nm.c_str(), rc);
          if (present && rc != 2 && e.via == 2 && has_upper(nm))
            violation("repeated-add-file-then-buffer-mixedcase", "name %s was added from a file, adding a buffer under the identical name returned %d instead of the repeated-name code 2", nm.c_str(), rc);
          if (present && rc != 2) violation("repeated-add", "adding existing name %s returned %d instead of the repeated-name code 2", nm.c_str(), rc);
          if (absent && rc == 2) violation("phantom-entry", "adding absent name %s returned the repeated-name code", nm.c_str());
          if (rc == 0) { e.state = strict || class_clear ? 1 : 2; e.bytes = c; e.via = 1; }   // (strict mode: rc==0 on a present name was already flagged above)
          else if (e.state == 0 && rc == -1) { count("addbuf_failed"); }
          if (rc == 0) touch_aliases();
          count("adds");
          break;
        }
        case OP_ADDFILE: {
          if (nm.find('/') != std::string::npos || nm.find('\\') != std::string::npos) break;   // real files live in one directory
          std::string path = dir + "/" + nm;
          if (filemode == 1) unlink(path.c_str());
          else { FILE* f = fopen(path.c_str(), "wb"); if (f) { if (filemode != 2) fwrite(c.data(), 1, c.size(), f); fclose(f); } if (filemode == 2) c.clear(); }
          int rc = mj_addFileVFS(&vfs, dir.c_str(), nm.c_str());
          if (rc != 0 && rc != 2 && rc != -1) violation("bad-code", "mj_addFileVFS(%s) returned %d", nm.c_str(), rc);
          if (present && rc != 2 && e.via == 1 && has_upper(nm))
            violation("repeated-add-buffer-then-file-mixedcase", "name %s was added as a buffer, adding a file under the identical name returned %d instead of the repeated-name code 2", nm.c_str(), rc);
          if (present && rc != 2) violation("repeated-add", "adding existing name %s from a file returned %d instead of 2", nm.c_str(), rc);
          if (absent && rc == 2) violation("phantom-entry", "adding absent name %s from a file returned the repeated-name code", nm.c_str());
          if (e.state != 1) {
            if (filemode == 1) { e.state = rc == -1 && e.state == 0 ? 0 : 2; count("addfile_missing_file"); }   // unreadable file: the statement is silent, state unknown
            else if (rc == 0) { e.state = strict || class_clear ? 1 : 2; e.bytes = c; e.via = 2; }
            else if (rc == -1 && e.state == 0) { /* stays absent */ }
            else e.state = 2;
          } else if (rc == 0 && !strict) { e.state = 2; }
          if (rc == 0) touch_aliases();
          count("adds");
          break;
        }
        case OP_DEL: {
          int rc = mj_deleteFileVFS(&vfs, nm.c_str());
          if (rc != 0 && rc != -1) violation("bad-code", "mj_deleteFileVFS(%s) returned %d", nm.c_str(), rc);
          if (present && rc != 0) violation("delete-failed", "deleting present name %s returned %d", nm.c_str(), rc);
          if (absent && rc != -1) violation("delete-absent", "deleting absent name %s reported success", nm.c_str());
          if (rc == 0) { e.state = 0; touch_aliases(); }
          count("deletes");
          break;
        }
        case OP_HASBUF: {
          int rc = mj_containsBufferVFS(&vfs, nm.c_str());
          if (present && rc != 1) violation("lost-file", "mj_containsBufferVFS(%s)=%d for a present file", nm.c_str(), rc);
          if (absent && rc != 0) violation("phantom-entry", "mj_containsBufferVFS(%s)=%d for an absent file", nm.c_str(), rc);
          break;
        }
        case OP_HASFILE: {
          if (nm.find('/') != std::string::npos || nm.find('\\') != std::string::npos) break;
          int rc = mj_containsFileVFS(&vfs, dir.c_str(), nm.c_str());
          if (rc != 0 && rc != 1) violation("bad-code", "mj_containsFileVFS returned %d", rc);
          break;   // whether a buffer added by name counts as "file in this directory" is not fixed by the statement
        }
        case OP_READ: {
          char err[300] = "";
          mjResource* res = nullptr;
          bool raised = ND_GUARD({ res = mju_openResource("", nm.c_str(), &vfs, err, sizeof err); });
          if (raised) violation("read-error", "mju_openResource(%s) raised: %s", nm.c_str(), g_lasterr);
          if (e.state == 1) {
            if (!res) violation("lost-file", "present file %s cannot be opened: %s", nm.c_str(), err);
            const void* buf = nullptr;
            int n = mju_readResource(res, &buf);
            if (n != (int)e.bytes.size() || (n > 0 && memcmp(buf, e.bytes.data(), n))) violation("wrong-bytes", "reading %s returned %d bytes that differ from the %zu bytes added", nm.c_str(), n, e.bytes.size());
            count("reads_verified");
          } else if (absent && res) {
            violation("phantom-entry", "absent file %s can be opened through the VFS", nm.c_str());
          }
          if (res) mju_closeResource(res);
          break;
        }
        case OP_RESET:
          mj_deleteVFS(&vfs); mj_defaultVFS(&vfs);
          for (auto& x : model) { x.state = 0; x.bytes.clear(); }
          break;
      }
    }
    mj_deleteVFS(&vfs);
    signature(sig);
    sample(g_scenario);
    end_case();
  }
  print_summary();
  return 0;
}
