// C19 (concurrent part): blocks reserved concurrently by pool threads under the thread lock are aligned, inside
// the arena and pairwise disjoint, and the dispatch returns with the stack pointer it started with.
// System under test: the unmodified engine_memory.c (relaxed fetch-add on d->pstack through the simulated
// __atomic_fetch_add) under the real mju_dispatch of engine_thread.cc; seeded schedules with basic-block
// (and, in the simls variant, load/store) preemption inside stackalloc; TSan-in-the-loop in simtsan.
#include <mujoco/mujoco.h>

#include "engine/engine_thread.h"
#include "simdrv.h"

using namespace sd;

static const char* kModel =
    "<mujoco><size memory=\"1M\"/><worldbody><body><freejoint/><geom size=\"0.1\"/></body></worldbody></mujoco>";

struct Res { char* p; size_t n, align; unsigned char pat; };
struct TaskPlan { int nres; size_t size[6], align[6]; int kind[6]; int yields[6]; bool markfree; };
struct Shared { TaskPlan plan[16]; Res res[16][6]; int nres_done[16]; size_t ps_entry; char* lo; char* hi; int ntask; };
static Shared S;
// harness bookkeeping is not a place to preempt: keep the byte loops out of the coverage instrumentation
#define NOCOVH __attribute__((no_sanitize("coverage"), noinline))
NOCOVH static bool intact(const Res& r) { for (size_t k = 0; k < r.n; k++) if ((unsigned char)r.p[k] != r.pat) return false; return true; }
NOCOVH static void fill(void* p, unsigned char pat, size_t n) { unsigned char* c = (unsigned char*)p; for (size_t k = 0; k < n; k++) c[k] = pat; }

// "tight" runs give the mjData a small arena so that concurrent reservations meet the limit.  Exhaustion is an mju_error raised
// inside mj_stackAlloc* on the worker's own stack: the task unwinds to its own entry (same thread) and records it.
static thread_local jmp_buf* t_task_jmp = nullptr;
static int g_exhausted[16];
static char g_errmsg[300];   // message of the error raised on the MAIN thread (tid 0) only: no sharing between simulated threads
static void on_mju_error(const char* msg) {
  if (!vsim::active() || vsim::self() == 0) snprintf(g_errmsg, sizeof g_errmsg, "%s", msg);
  if (t_task_jmp) longjmp(*t_task_jmp, 1);
  violation("unexpected-error", "mju_error outside a task: %s", msg);
}
static void task(const mjModel* m, mjData* d, void* arg, int tid, int id) {
  (void)m; (void)arg;
  const TaskPlan& pl = S.plan[id];
  vsim::note(1, id);
  jmp_buf jb; t_task_jmp = &jb;
  if (setjmp(jb)) { t_task_jmp = nullptr; g_exhausted[id] = 1; vsim::note(3, id); return; }
  if (pl.markfree) mj_markStack(d);                 // engine tasks bracket their allocations: no-ops under the lock
  for (int i = 0; i < pl.nres; i++) {
    void* p;
    size_t n = pl.size[i];
    if (pl.kind[i] == 0) p = mj_stackAllocByte(d, n, pl.align[i]);
    else if (pl.kind[i] == 1) { p = mj_stackAllocNum(d, n / sizeof(mjtNum) + 1); n = (n / sizeof(mjtNum) + 1) * sizeof(mjtNum); }
    else { p = mj_stackAllocInt(d, n / sizeof(int) + 1); n = (n / sizeof(int) + 1) * sizeof(int); }
    size_t al = pl.kind[i] == 0 ? pl.align[i] : pl.kind[i] == 1 ? sizeof(mjtNum) : sizeof(int);
    if (!p) violation("null-block", "task %d: reservation %d of %zu bytes returned NULL", id, i, n);
    if ((uintptr_t)p % al) violation("misaligned", "task %d: reservation of %zu bytes at %p not aligned to %zu", id, n, p, al);
    // bounds first, so that a block outside the arena is reported before the harness writes its pattern into foreign memory
    if ((char*)p < (char*)d->arena + d->parena || (char*)p + n > (char*)d->arena + d->narena)
      violation("out-of-bounds", "task %d: reservation of %zu bytes at arena offset %td outside the free region [%zu,%zu)", id, n, (char*)p - (char*)d->arena, (size_t)d->parena, (size_t)d->narena);
    unsigned char pat = (unsigned char)(1 + id * 6 + i);
    fill(p, pat, n);
    S.res[id][i] = Res{(char*)p, n, al, pat};
    S.nres_done[id] = i + 1;
    for (int y = 0; y < pl.yields[i]; y++) vsim::yield_now();
    // everything this task holds must still be intact (a block handed to two threads shows here)
    for (int j = 0; j <= i; j++) { const Res& r = S.res[id][j]; if (!intact(r)) violation("reservation-overlap", "task %d (thread %d): block %d of %zu bytes was overwritten while live", id, tid, j, r.n); }
  }
  if (pl.markfree) mj_freeStack(d);
  t_task_jmp = nullptr;
  vsim::note(2, id);
}

int main(int argc, char** argv) {
  no_aslr(argv);
  g_property = "C19";
  parse_args(argc, argv);
  install_handlers();
  engine_warmup();
  use_caching_alloc();
  mju_user_error = on_mju_error;
  setvbuf(stdout, 0, _IOLBF, 0);
  char err[512] = "";
  mjSpec* spec = mj_parseXMLString(kModel, nullptr, err, sizeof err);
  mjModel* m = spec ? mj_compile(spec, nullptr) : nullptr;
  if (!m) { fprintf(stderr, "harness: model failed: %s\n", err); return 2; }
  uint64_t est_len = 300;
  for (uint64_t s = g_args.seed0; s < g_args.seed0 + g_args.n; s++) {
    Rng r(s);
    int nworker = r.range(1, 4);
    int ndisp = r.range(1, 3);
    struct Disp { int ntask; TaskPlan plan[16]; int pre; };
    std::vector<Disp> all, disps;
    for (int k = 0; k < ndisp; k++) {
      Disp dp{};
      dp.ntask = r.range(2, 10);
      dp.pre = r.below(3);                           // main-thread frames/blocks alive across the dispatch
      for (int t = 0; t < dp.ntask; t++) {
        TaskPlan& pl = dp.plan[t];
        pl.nres = r.range(0, 5); pl.markfree = r.chance(0.5);
        for (int i = 0; i < pl.nres; i++) {
          int c = r.below(10);
          pl.size[i] = c < 6 ? (size_t)r.range(1, 96) : c < 9 ? (size_t)r.range(97, 2000) : (size_t)r.range(2000, 20000);
          pl.align[i] = (size_t)1 << r.below(8);
          pl.kind[i] = r.below(4) == 0 ? r.range(1, 2) : 0;
          pl.yields[i] = r.below(3);
        }
      }
      all.push_back(dp);
    }
    for (int i = 0; i < (int)all.size(); i++) if (!g_args.drop.count(i)) disps.push_back(all[i]);
    char sc[160]; snprintf(sc, sizeof sc, "workers=%d dispatches=%zu tasks=", nworker, disps.size());
    g_scenario = sc; for (auto& dp : disps) g_scenario += std::to_string(dp.ntask) + " ";
    vsim::Config cfg = swarm(r, {0, 5000, 50000, 300000}, {0, 0, 20000, 200000}, est_len);
    cfg.starve_victim = r.range(0, nworker);
    cfg.opp_cap = 20000000;
    apply_overrides(cfg);
    bool tight = r.chance(0.45);
    m->narena = tight ? 8 * (size_t)r.range(300, 6000) : (size_t)1 << 20;     // 2.4 .. 48 KB, or ample
    mjData* d = mj_makeData(m);
    g_scenario += tight ? " arena=" + std::to_string((long)m->narena) : " arena=ample";
    bool ended_by_exhaustion = false;
    run_begin(s, cfg);
    mju_threadpool(d, nworker);
    for (auto& dp : disps) {
      // main-thread state that must survive the dispatch
      std::vector<Res> pre;
      size_t ps0 = d->pstack, pb0 = d->pbase;
      for (int k = 0; k < dp.pre; k++) { mj_markStack(d); size_t n = (size_t)(40 + 24 * k); char* p = (char*)mj_stackAllocByte(d, n, 8); memset(p, 0xE0 + k, n); pre.push_back(Res{p, n, 8, (unsigned char)(0xE0 + k)}); }
      memset(&S, 0, sizeof S); memset(g_exhausted, 0, sizeof g_exhausted);
      S.ntask = dp.ntask; for (int t = 0; t < dp.ntask; t++) S.plan[t] = dp.plan[t];
      size_t ps = d->pstack, pb = d->pbase, pa = d->parena;
      mju_dispatch(m, d, task, nullptr, dp.ntask);
      int nexh = 0; for (int t = 0; t < dp.ntask; t++) nexh += g_exhausted[t];
      if (nexh && !tight) violation("spurious-exhaustion", "a reservation raised '%s' although the arena is ample", g_errmsg);
      if (d->threadlock) violation("threadlock", "mjData still thread-locked after dispatch");
      if (d->pstack != ps || d->pbase != pb) violation("stack-not-restored", "pstack/pbase %zu/%zu -> %zu/%zu across a dispatch with reservations", ps, pb, (size_t)d->pstack, (size_t)d->pbase);
      if (d->parena != pa) violation("arena-moved", "parena changed across dispatch");
      // all reservations of the dispatch were live together: pairwise disjoint, inside the free region, below the caller's stack
      char* lo = (char*)d->arena + d->parena; char* hi = (char*)d->arena + d->narena - ps;
      std::vector<Res> allr;
      for (int t = 0; t < dp.ntask; t++) {
        if (S.nres_done[t] != dp.plan[t].nres && !g_exhausted[t]) violation("lost-reservation", "task %d made %d of %d reservations", t, S.nres_done[t], dp.plan[t].nres);
        for (int i = 0; i < S.nres_done[t]; i++) allr.push_back(S.res[t][i]);
      }
      for (size_t a = 0; a < allr.size(); a++) {
        if (allr[a].p < lo || allr[a].p + allr[a].n > hi) violation("out-of-bounds", "reservation of %zu bytes at arena offset %td outside the free region [%td,%td)", allr[a].n, allr[a].p - (char*)d->arena, lo - (char*)d->arena, hi - (char*)d->arena);
        for (size_t b = a + 1; b < allr.size(); b++)
          if (allr[a].p < allr[b].p + allr[b].n && allr[b].p < allr[a].p + allr[a].n) violation("reservation-overlap", "two concurrent reservations overlap: [%td,+%zu) and [%td,+%zu)", allr[a].p - (char*)d->arena, allr[a].n, allr[b].p - (char*)d->arena, allr[b].n);
        if (!intact(allr[a])) violation("reservation-overlap", "a reservation was overwritten before the dispatch returned");
      }
      for (auto& b : pre) if (!intact(b)) violation("caller-block-clobbered", "a block the caller held across the dispatch was overwritten");
      if (!nexh) {
        for (int k = 0; k < dp.pre; k++) mj_freeStack(d);
        if (d->pstack != ps0 || d->pbase != pb0) violation("stack-not-restored", "caller frames not restored after the dispatch");
      }
      probe("reservations", allr.size());
      if (nexh) {
        // exhaustion under the thread lock is an mju_error: the instance is finished (no roll-back of the failed reservation); everything
        // that WAS handed out has just been checked for bounds, disjointness and integrity, which is what "instead of corruption" means
        probe("dispatches_ended_by_exhaustion"); probe("exhausted_tasks", nexh);
        ended_by_exhaustion = true;
        break;
      }
      if (allr.size() >= 2) probe("dispatches_with_concurrent_reservations");
    }
    mju_threadpool(d, 0);
    run_end();
    if (ended_by_exhaustion) { d->pstack = 0; d->pbase = 0; }
    mj_deleteData(d);
    m->narena = (size_t)1 << 20;
    est_len = (est_len * 7 + vsim::stats().opportunities + 8) / 8;
  }
  g_agg.print(stdout);
  return 0;
}
