// C31 (concurrent-use scenario): saving and loading binary models from several threads at once gives what the same calls give one
// after the other.  mj_loadModelBuffer / mj_saveModel / mj_sizeModel / mj_copyModel take no lock and are documented as usable from
// several threads on distinct objects; a loader that keeps anything in shared mutable storage (a static table, a cached size) breaks
// the round trip only when two loads overlap, which no single-threaded round trip or corruption sweep can see.
// Per case: 2-4 generated models with different sizes, their saved bytes, and one damaged file (truncated or with a corrupted size
// field); 2-4 simulated threads each perform a seeded list of operations (load buffer i, save it again, copy, size, delete) under the
// case's schedule; every result must equal the result of the same operation executed alone before the run: identical bytes for intact
// files, rejection (NULL) for the damaged one.  The simtsan stage reports unsynchronised accesses inside the engine.
#include "simdrv.h"
#include "hist.h"

using nd::Rng;

static std::atomic<long> g_warnings{0};
static void count_warning(const char*) { g_warnings.fetch_add(1, std::memory_order_relaxed); }
static void on_error(const char* msg) {
  snprintf(nd::g_lasterr, sizeof nd::g_lasterr, "%s", msg);
  if (vsim::active() && vsim::self() != 0) sd::violation("error-on-loader-thread", "mju_error on thread %d during a concurrent load/save: %s", vsim::self(), msg);
  if (nd::g_jmp) longjmp(*nd::g_jmp, 1);
  sd::violation("unexpected-error", "mju_error outside a guarded call: %s", msg);
}
static std::vector<char> save_bytes(const mjModel* m) {
  std::vector<char> b((size_t)mj_sizeModel(m));
  mj_saveModel(m, nullptr, b.data(), (int)b.size());
  return b;
}

struct File { std::vector<char> bytes; std::vector<char> expect; bool rejected = false; std::string what; };   // expect: save(load(bytes)) executed alone
struct ThreadOp { int file; int extra; };   // extra: 0 load+save, 1 load+copy+save, 2 load+size only, 3 save the shared source model directly

int main(int argc, char** argv) {
  sd::no_aslr(argv);
  sd::g_property = "C31"; nd::g_property = "C31";
  sd::parse_args(argc, argv);
  nd::parse_args(argc, argv);
  sd::install_handlers();
  sd::engine_warmup();
  sd::use_caching_alloc();
  mju_user_error = on_error; mju_user_warning = count_warning;
  setvbuf(stdout, 0, _IOLBF, 0);
  uint64_t est_len = 2000;
  for (uint64_t s = sd::g_args.seed0; s < sd::g_args.seed0 + sd::g_args.n; s++) {
    Rng r(s);
    int nmodel = r.range(2, 4), nthread = r.range(2, 4);
    std::vector<mjModel*> models; std::vector<File> files;
    std::string desc;
    for (int i = 0; i < nmodel; i++) {
      mg::GenOpts go; go.min_trees = 1; go.max_trees = 1 + (i % 3); go.max_depth = 1 + i % 2; go.flex_chance = 0;
      mg::Model gm = mg::generate(r, go, nd::g_args.mdrop);
      std::string err; mjModel* m = mg::compile(gm.xml, &err);
      if (!m) continue;
      models.push_back(m);
      File f; f.bytes = save_bytes(m); f.what = "model " + std::to_string(i) + " (" + std::to_string(f.bytes.size()) + " bytes)";
      files.push_back(f);
    }
    if (models.size() < 2) { for (auto* m : models) mj_deleteModel(m); sd::probe("cases_skipped"); continue; }
    // one damaged file: a truncation or a corrupted size field of the first model
    {
      File f; f.bytes = files[0].bytes;
      if (r.chance(0.5)) { f.bytes.resize((size_t)r.below((int)f.bytes.size())); f.what = "model 0 truncated to " + std::to_string(f.bytes.size()) + " bytes"; }
      else { size_t off = 5 * sizeof(int) + sizeof(mjtSize) * (size_t)r.below(40); mjtSize v; memcpy(&v, f.bytes.data() + off, sizeof v); v += 1 + r.below(5); memcpy(f.bytes.data() + off, &v, sizeof v); f.what = "model 0 with size field at byte " + std::to_string(off) + " raised"; }
      files.push_back(f);
    }
    // what each file gives when loaded alone
    for (auto& f : files) {
      mjModel* m = nullptr;
      bool raised = ND_GUARD({ m = mj_loadModelBuffer(f.bytes.data(), (int)f.bytes.size()); });
      if (raised || !m) { f.rejected = true; continue; }
      f.expect = save_bytes(m);
      mj_deleteModel(m);
    }
    for (size_t i = 0; i + 1 < files.size(); i++) if (files[i].rejected || files[i].expect != files[i].bytes) { fprintf(stderr, "harness: a freshly saved model does not round-trip alone (C31's sequential stage decides that)\n"); return 2; }
    // operation lists
    std::vector<std::vector<ThreadOp>> plan(nthread);
    int k = 0;
    for (int t = 0; t < nthread; t++) {
      int nop = r.range(1, 4);
      for (int j = 0; j < nop; j++, k++) { ThreadOp o{r.below((int)files.size()), r.below(8) < 5 ? 0 : r.range(1, 3)}; if (!sd::g_args.drop.count(k)) plan[t].push_back(o); }
    }
    char sc[200]; snprintf(sc, sizeof sc, "models=%zu threads=%d damaged=[%s] ops:", models.size(), nthread, files.back().what.c_str());
    sd::g_scenario = sc;
    for (int t = 0; t < nthread; t++) { sd::g_scenario += " T" + std::to_string(t) + ":"; for (auto& o : plan[t]) sd::g_scenario += std::to_string(o.file) + "/" + std::to_string(o.extra) + ","; }
    sd::Rng r2(s ^ 0x5DEECE66DULL);
    vsim::Config cfg = sd::swarm(r2, {100, 1000, 10000, 100000}, {0, 0, 1000, 20000}, est_len);
    cfg.opp_cap = 2000000000ULL;
    sd::apply_overrides(cfg);
    // results are recorded by the threads and judged by the main thread after the join (a violation is raised by one thread only)
    struct Result { int kind = 0; std::vector<char> bytes; long size = 0; };   // kind: 0 not run, 1 model returned, 2 NULL
    std::vector<std::vector<Result>> res(nthread);
    for (int t = 0; t < nthread; t++) res[t].resize(plan[t].size());
    sd::run_begin(s, cfg);
    {
      std::vector<std::thread> th;
      for (int t = 0; t < nthread; t++) th.emplace_back([&, t]() {
        for (size_t j = 0; j < plan[t].size(); j++) {
          const ThreadOp& o = plan[t][j]; const File& f = files[o.file]; Result& R = res[t][j];
          if (o.extra == 3 && (size_t)o.file < models.size()) {   // two threads may save the same (read-only) source model at once
            R.bytes = save_bytes(models[o.file]); R.kind = 1; R.size = (long)mj_sizeModel(models[o.file]); continue;
          }
          mjModel* m = mj_loadModelBuffer(f.bytes.data(), (int)f.bytes.size());
          if (!m) { R.kind = 2; continue; }
          R.kind = 1; R.size = (long)mj_sizeModel(m);
          if (o.extra == 1) { mjModel* c = mj_copyModel(nullptr, m); mj_deleteModel(m); m = c; if (!m) { R.kind = 2; continue; } }
          if (o.extra != 2) R.bytes = save_bytes(m);
          mj_deleteModel(m);
        }
      });
      for (auto& t : th) t.join();
    }
    for (int t = 0; t < nthread; t++) for (size_t j = 0; j < plan[t].size(); j++) {
      const ThreadOp& o = plan[t][j]; const File& f = files[o.file]; const Result& R = res[t][j];
      if (f.rejected) { if (R.kind == 1) sd::violation("concurrent-load-differs", "thread %d: %s is rejected when loaded alone but was accepted during concurrent loads", t, f.what.c_str()); sd::probe("damaged_files_rejected_concurrently"); continue; }
      if (R.kind != 1) sd::violation("concurrent-load-differs", "thread %d: %s loads alone but was rejected (NULL) while other threads were loading other files", t, f.what.c_str());
      if (R.size != (long)f.expect.size()) sd::violation("concurrent-load-differs", "thread %d: %s: mj_sizeModel of the loaded model is %ld, alone it is %zu", t, f.what.c_str(), R.size, f.expect.size());
      if (o.extra != 2 && R.bytes != f.expect) { size_t i = 0; while (i < R.bytes.size() && i < f.expect.size() && R.bytes[i] == f.expect[i]) i++; sd::violation("concurrent-load-differs", "thread %d: %s: the model loaded during concurrent loads differs from the one loaded alone at byte %zu", t, f.what.c_str(), i); }
      sd::probe("concurrent_round_trips_checked");
    }
    sd::run_end();
    for (auto* m : models) mj_deleteModel(m);
    if (vsim::stats().max_runnable >= 2) sd::probe("runs_with_overlapping_loads");
    sd::probe("cases");
    est_len = (est_len * 7 + vsim::stats().opportunities + 8) / 8;
  }
  sd::g_agg.print(stdout);
  return 0;
}
