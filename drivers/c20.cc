// C20: exhausted arena memory is handled gracefully (fault enumeration).
// The fault is "the k-th arena/stack allocation of a step fails", injected by making the arena exactly
// `narena` bytes: every size from 0 up to what the step needs (step 8) makes a different allocation the
// first to fail.  Runs in the ASan variant: the arena is an exact-size heap block, unused arena is poisoned
// by the engine itself (mjUSEASAN), so any write outside or read of unallocated arena is reported.
#include <algorithm>

#include "hist.h"

using namespace nd;
using namespace hs;

struct Ref { int ncon, nefc, nisland; size_t need; std::vector<int> cg1, cg2; };
enum Family { F_CLUSTER, F_PAIRS, F_GENERAL, F_CORPUS, F_MULTIGEOM, F_N };
static const char* kFam[] = {"dense-cluster", "explicit-pairs", "generated", "corpus", "multi-geom"};

static bool in_arena(const mjData* d, const void* p, size_t n) {
  const char* a = (const char*)d->arena;
  return (const char*)p >= a && (const char*)p + n <= a + d->narena;
}

int main(int argc, char** argv) {
  setup(argc, argv, "C20");
  Supply sup; sup.init();
  long max_exec = opt_long("maxexec", 1500);
  for (uint64_t s = g_args.seed0; s < g_args.seed0 + g_args.n; s++) {
    begin_case(s);
    ND_CASE_GUARD();
    Rng r(s);
    int fam = r.below(F_N);
    mg::GenOpts go;
    go.allow_sleep = r.chance(0.3);
    std::string mdesc;
    mjModel* m = nullptr;
    if (fam == F_CLUSTER) { go.dense_cluster = true; go.cluster_n = r.range(6, 28); go.sensors = false; }
    else if (fam == F_PAIRS) { go.explicit_pairs = true; go.min_trees = 4; go.max_trees = 8; }
    else if (fam == F_MULTIGEOM) { go.min_trees = 2; go.max_trees = 3; go.spread = 0.1; }
    if (fam == F_CORPUS) { sup.corpus_share = 1.0; m = sup.get(r, go, &mdesc, nullptr, 120); sup.corpus_share = 0.3; }
    else { sup.corpus_share = 0; m = sup.get(r, go, &mdesc); sup.corpus_share = 0.3; }
    if (!m) { end_case(); continue; }
    mdesc = std::string(kFam[fam]) + " " + mdesc;
    int nsteps = 3;
    // ---- reference with ample memory
    Ref ref{};
    {
      mjData* d = mj_makeData(m);
      bool e = ND_GUARD({ mj_forward(m, d); });
      if (e) { mu::dispose(d); mj_deleteModel(m); count("reference_raised_error"); end_case(); continue; }
      ref.ncon = d->ncon; ref.nefc = d->nefc; ref.nisland = d->nisland;
      for (int i = 0; i < d->ncon; i++) { ref.cg1.push_back(d->contact[i].geom[0]); ref.cg2.push_back(d->contact[i].geom[1]); }
      e = ND_GUARD({ for (int k = 0; k < nsteps; k++) mj_step(m, d); });
      ref.need = d->maxuse_arena;
      mu::dispose(d);
      if (e) { mj_deleteModel(m); count("reference_raised_error"); end_case(); continue; }
    }
    if (ref.ncon == 0 && ref.nefc == 0) count("reference_without_constraints");
    // ---- sizes: exhaustive in steps of 8 when affordable, else all small sizes + boundaries + seeded sample
    std::vector<size_t> sizes;
    size_t top = ref.need + 64;
    if ((long)(top / 8) <= max_exec) for (size_t z = 0; z <= top; z += 8) sizes.push_back(z);
    else {
      for (size_t z = 0; z <= 2048; z += 8) sizes.push_back(z);
      for (long k = 0; k < max_exec - 400; k++) sizes.push_back((size_t)(r.unit() * top) & ~(size_t)7);
      for (size_t z = top > 1024 ? top - 1024 : 0; z <= top; z += 8) sizes.push_back(z);
    }
    bool exhaustive = (long)(top / 8) <= max_exec;
    // the declared memory need not be a multiple of the allocation alignment: shift the whole sweep by a seeded 0..7 bytes, so that
    // an allocation whose padding straddles the end of the arena is reached as well
    size_t off = r.chance(0.4) ? 0 : (size_t)r.range(1, 7);
    for (auto& z : sizes) z += off;
    count(off ? "cases_with_unaligned_arena_sizes" : "cases_with_aligned_arena_sizes");
    mjModel* m2 = mj_copyModel(nullptr, m);
    uint64_t sig = fnv_str(mdesc);
    long n_ok = 0, n_err = 0, n_warn = 0;
    std::set<std::string> first_errors;
    // one faulted execution; returns a coarse outcome signature (used to find the sizes where the outcome changes)
    auto run_size = [&](size_t z) -> uint64_t {
      uint64_t out = 0;
      m2->narena = z;
      char sc[64]; snprintf(sc, sizeof sc, " narena=%zu", z);
      g_scenario = mdesc + sc;
      mjData* d = nullptr;
      bool e0 = ND_GUARD({ d = mj_makeData(m2); });
      if (e0 || !d) { n_err++; count("makeData_rejected_size"); return 1; }
      if ((size_t)d->narena != z) { mu::dispose(d); count("narena_adjusted_by_makeData"); return 2; }
      bool e = ND_GUARD({ mj_forward(m2, d); });
      count("faulted_executions");
      if (e) {
        n_err++;
        std::string msg(g_lasterr); size_t p = msg.find('\n'); first_errors.insert(msg.substr(0, std::min<size_t>(p, 60)));
        out = fnv_str(msg.substr(0, std::min<size_t>(p, 40)), 3);
      } else {
        // consistent truncated set
        int wc = d->warning[mjWARN_CONTACTFULL].number, wk = d->warning[mjWARN_CNSTRFULL].number;
        if (d->ncon > ref.ncon) violation("more-contacts", "narena=%zu: %d contacts, the run with ample memory has %d", z, d->ncon, ref.ncon);
        if (d->ncon < ref.ncon && !wc && !wk) violation("silent-truncation", "narena=%zu: %d of %d contacts kept but no CONTACTFULL/CNSTRFULL warning was raised", z, d->ncon, ref.ncon);
        if (d->ncon == ref.ncon && d->nefc < ref.nefc && !wk && !wc) violation("silent-truncation", "narena=%zu: %d of %d constraint rows but no warning was raised", z, d->nefc, ref.nefc);
        if (d->ncon == ref.ncon && d->nefc == ref.nefc && d->nisland < ref.nisland && !wk) violation("silent-truncation", "narena=%zu: %d of %d islands but no warning was raised", z, d->nisland, ref.nisland);
        if (wc || wk) n_warn++; else n_ok++;
        { int o[5] = {wc > 0, wk > 0, d->ncon, d->nefc, d->nisland}; out = fnv(o, sizeof o, 4); }
        for (int i = 0; i < d->ncon; i++) {
          const mjContact* c = d->contact + i;
          if (!in_arena(d, c, sizeof *c)) violation("out-of-arena", "narena=%zu: contact %d lies outside the arena", z, i);
          if (c->geom[0] < -1 || c->geom[0] >= m->ngeom || c->geom[1] < -1 || c->geom[1] >= m->ngeom) violation("garbage-contact", "narena=%zu: contact %d has geom ids %d,%d", z, i, c->geom[0], c->geom[1]);
          if (i < ref.ncon && (c->geom[0] != ref.cg1[i] || c->geom[1] != ref.cg2[i])) violation("garbage-contact", "narena=%zu: contact %d is between geoms %d,%d, with ample memory %d,%d", z, i, c->geom[0], c->geom[1], ref.cg1[i], ref.cg2[i]);
          if (!std::isfinite(c->dist) || c->dim < 1 || c->dim > 6) violation("garbage-contact", "narena=%zu: contact %d has dist %g dim %d", z, i, c->dist, c->dim);
          if (c->efc_address >= d->nefc) violation("garbage-contact", "narena=%zu: contact %d has efc_address %d >= nefc %d", z, i, c->efc_address, d->nefc);
        }
        if (d->nefc) {
          if (!d->efc_type || !d->efc_id || !d->efc_force || !d->efc_J || !d->efc_D) violation("dangling-efc", "narena=%zu: nefc=%d but constraint arrays are not allocated", z, d->nefc);
          if (!in_arena(d, d->efc_force, sizeof(mjtNum) * d->nefc) || !in_arena(d, d->efc_type, sizeof(int) * d->nefc)) violation("out-of-arena", "narena=%zu: constraint arrays lie outside the arena", z);
          for (int i = 0; i < d->nefc; i++) if (d->efc_type[i] < 0 || d->efc_type[i] > 10) violation("garbage-efc", "narena=%zu: efc_type[%d]=%d", z, i, d->efc_type[i]);
          if (d->ne + d->nf + d->nl > d->nefc) violation("garbage-efc", "narena=%zu: ne+nf+nl=%d > nefc=%d", z, d->ne + d->nf + d->nl, d->nefc);
        } else if (d->ne || d->nf || d->nl) violation("dangling-efc", "narena=%zu: nefc=0 but ne=%d nf=%d nl=%d", z, d->ne, d->nf, d->nl);
        if ((size_t)d->parena + (size_t)d->pstack > (size_t)d->narena) violation("arena-overrun", "narena=%zu: parena %zu + pstack %zu exceed it", z, (size_t)d->parena, (size_t)d->pstack);
        if (d->pstack || d->pbase) violation("stack-not-restored", "narena=%zu: mj_forward returned with pstack=%zu", z, (size_t)d->pstack);
        // the truncated data must keep working
        bool e2 = ND_GUARD({ for (int k = 0; k < nsteps; k++) mj_step(m2, d); });
        if (e2) count("later_step_raised_error");
        else if (!mu::all_finite(d->qpos, m->nq)) count("nonfinite_after_truncated_steps");
      }
      mu::dispose(d);
      sig = fnv(&z, sizeof z, sig);
      return out;
    };
    // sweep, then every byte size between two swept sizes whose outcome differs (the boundary of each allocation site, byte exact)
    std::sort(sizes.begin(), sizes.end());
    sizes.erase(std::unique(sizes.begin(), sizes.end()), sizes.end());
    std::vector<uint64_t> outs;
    for (size_t z : sizes) outs.push_back(run_size(z));
    long nfine = 0;
    for (size_t i = 1; i < sizes.size() && nfine < 1500; i++)
      if (outs[i] != outs[i - 1] && sizes[i] - sizes[i - 1] <= 8)
        for (size_t z = sizes[i - 1] + 1; z < sizes[i]; z++) { run_size(z); nfine++; }
    count("byte_exact_boundary_sizes", nfine);
    count("executions_returned_clean", n_ok); count("executions_with_warning", n_warn); count("executions_with_caught_error", n_err);
    if (exhaustive) count("models_swept_exhaustively"); else count("models_swept_by_sample");
    count((std::string("family_") + kFam[fam]).c_str());
    g_scenario = mdesc;
    if (n_err + n_warn > 0) { signature(sig); char b[160]; snprintf(b, sizeof b, "%s need=%zu sizes=%zu clean=%ld warned=%ld caught=%ld", mdesc.c_str(), ref.need, sizes.size(), n_ok, n_warn, n_err); sample(b); }
    mj_deleteModel(m2);
    mj_deleteModel(m);
    end_case();
  }
  print_summary();
  return 0;
}
