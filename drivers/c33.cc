// C33: compilation is deterministic and copy-invariant.
// System under test: the whole compiler (user_model.cc, user_threadpool.cc, user_mesh.cc, user_objects.cc, user_api.cc)
// in the sim / simtsan variant.  The asset pool (meshes + textures) and the actuator length-range pool run as
// simulated threads: std::thread / mutex / condition_variable and hardware_concurrency() are the simulator's.
// Per case: a generated spec with several inline and builtin meshes, builtin textures (with random marks) and muscle
// actuators.  Reference = bytes of the model compiled with usethread=0; then the same spec compiled with usethread=1
// under the case's schedule, compiled a second time, a deep copy (mj_copySpec) compiled, mj_copyModel, and
// mj_recompile on a stepped mjData.  All model bytes must be identical; recompile must preserve the state.
#include "simdrv.h"
#include "natdrv.h"
#include "assetgen.h"

using nd::Rng;

using ag::gen_xml;

static std::vector<char> model_bytes(const mjModel* m) {
  std::vector<char> b((size_t)mj_sizeModel(m));
  mj_saveModel(m, nullptr, b.data(), (int)b.size());
  return b;
}
static std::string diff_where(const mjModel* a, const mjModel* b) {
  // name the first differing array (for the report; the verdict is the byte comparison)
  if (!a || !b) return "one model missing";
#define X(name) if (a->name != b->name) return "size " #name;
  MJMODEL_SIZES
#undef X
  {
    const mjModel* m = a;
    MJMODEL_POINTERS_PREAMBLE(m)
#define XNV X
#define X(type, name, nr, nc) if (memcmp(a->name, b->name, sizeof(type) * (size_t)(m->nr) * (nc))) { \
      size_t n_ = (size_t)(m->nr) * (nc), i_ = 0; while (i_ < n_ && !memcmp(&a->name[i_], &b->name[i_], sizeof(type))) i_++; \
      char buf_[200]; snprintf(buf_, sizeof buf_, "array " #name "[%zu of %zu]: %.9g vs %.9g", i_, n_, (double)a->name[i_], (double)b->name[i_]); return buf_; }
    MJMODEL_POINTERS
#undef X
#undef XNV
  }
  if (memcmp(&a->opt, &b->opt, sizeof a->opt)) return "opt";
  if (memcmp(&a->vis, &b->vis, sizeof a->vis)) return "vis";
  if (memcmp(&a->stat, &b->stat, sizeof a->stat)) return "stat";
  return "header/flags";
}

static void c33_error(const char* msg) {
  snprintf(nd::g_lasterr, sizeof nd::g_lasterr, "%s", msg);
  if (vsim::active() && vsim::self() != 0) sd::violation("error-in-worker", "mju_error raised on compiler worker thread %d: %s", vsim::self(), msg);
  if (nd::g_jmp) longjmp(*nd::g_jmp, 1);
  sd::violation("unexpected-error", "mju_error outside a guarded call: %s", msg);
}

int main(int argc, char** argv) {
  sd::no_aslr(argv);
  sd::g_property = "C33"; nd::g_property = "C33";
  sd::parse_args(argc, argv);
  nd::parse_args(argc, argv);
  sd::install_handlers();
  sd::engine_warmup();
  sd::use_caching_alloc();
  sd::CacheAlloc::poison_on_free = true;   // a worker still using an mjData that the compiler already deleted reads garbage
  mju_user_error = c33_error; mju_user_warning = nd::on_warning;
  setvbuf(stdout, 0, _IOLBF, 0);
  {
    // process-global lazy initialisation in the compiler (asset cache, registries, function-local statics) must not depend on
    // which run of a batch touches it first: one threaded compile in a simulation of its own before the first case
    Rng rw(12345); int a, b, c;
    std::string wx = gen_xml(rw, &a, &b, &c, {});
    vsim::Config c0; c0.seed = 1; c0.policy = vsim::P_STICKY; c0.sticky_ppm = 0; c0.hw_concurrency = 4;
    vsim::begin(c0);
    char werr[500] = "";
    for (int pass = 0; pass < 2; pass++) {
      mjSpec* ws = mj_parseXMLString(wx.c_str(), nullptr, werr, sizeof werr);
      if (ws) { ws->compiler.usethread = pass; mjModel* wm = mj_compile(ws, nullptr); if (wm) { mjData* wd = mj_makeData(wm); mj_step(wm, wd); mj_recompile(ws, nullptr, wm, wd); mjSpec* wc = mj_copySpec(ws); mj_deleteSpec(wc); mj_deleteData(wd); mj_deleteModel(wm); } mj_deleteSpec(ws); }
    }
    vsim::end();
  }
  uint64_t est_len = 2000;
  for (uint64_t s = sd::g_args.seed0; s < sd::g_args.seed0 + sd::g_args.n; s++) {
    Rng r(s);
    int nmesh = 0, ntex = 0, nmuscle = 0;
    bool fuse = false; int nstruct = 0;
    ag::Files files;
    Rng rc(s ^ 0xC0111DE5ULL);
    bool collide = rc.chance(0.35);     // colliding mesh geoms need convex hulls (another branch of the mesh cache)
    std::string xml = gen_xml(r, &nmesh, &ntex, &nmuscle, nd::g_args.mdrop, collide, &fuse, &nstruct, &files);
    // the global asset cache: emptied before every case (a case must not depend on the cases before it), and before a seeded subset
    // of the case's steps, so that cold and warm compiles, and threaded compiles that race for the same file, all occur
    auto clear_cache = [&]() { mjCache* c = mj_getCache(); size_t cap = mj_getCacheCapacity(c); mj_setCacheCapacity(c, 0); mj_setCacheCapacity(c, cap); };
    clear_cache();
    unsigned cold = (unsigned)rc.below(64);
    mjVFS vfs; mj_defaultVFS(&vfs);
    for (auto& fl : files) if (mj_addBufferVFS(&vfs, fl.first.c_str(), fl.second.data(), (int)fl.second.size())) { fprintf(stderr, "harness: cannot add %s to the VFS\n", fl.first.c_str()); return 2; }
    // steps of the case (the minimiser may drop any of them): 0 second compile, 1 copySpec, 2 copyModel, 3 recompile, 4 reparse+compile
    bool st[6]; for (int i = 0; i < 5; i++) st[i] = !sd::g_args.drop.count(i) && r.chance(0.75);
    st[5] = !sd::g_args.drop.count(5) && rc.chance(0.5);   // 5: edit the spec (new hinged body, new static geom), recompile in place on a stepped mjData
    char sc[260]; snprintf(sc, sizeof sc, "meshes=%d (files=%d hulls=%d) textures=%d muscles=%d structure=%d fusestatic=%d cold=%02x steps=%d%d%d%d%d%d", nmesh, (int)files.size(), (int)collide, ntex, nmuscle, nstruct, (int)fuse, cold, st[0], st[1], st[2], st[3], st[4], st[5]);
    sd::g_scenario = sc;
    sd::Rng r2(s ^ 0x5DEECE66DULL);
    vsim::Config cfg = sd::swarm(r2, {0, 0, 100, 1000, 10000}, {}, est_len);
    cfg.starve_victim = r.range(0, 4);
    cfg.opp_cap = 2000000000ULL;
    sd::apply_overrides(cfg);
    char err[1000] = "";
    if (sd::g_args.opt.count("dumpxml")) printf("XML %s\n", xml.c_str());
    sd::run_begin(s, cfg);
    // ---- reference: single-threaded compile of a freshly parsed spec
    mjSpec* s0 = mj_parseXMLString(xml.c_str(), &vfs, err, sizeof err);
    if (!s0) { fprintf(stderr, "harness: generated XML does not parse: %s\n%s\n", err, xml.c_str()); return 2; }
    s0->compiler.usethread = 0;
    mjModel* mref = mj_compile(s0, &vfs);
    if (!mref) {
      snprintf(err, sizeof err, "%s", mjs_getError(s0));
      // the model is rejected: the threaded compile must reject it too
      mjSpec* s1 = mj_parseXMLString(xml.c_str(), &vfs, err, sizeof err);
      s1->compiler.usethread = 1;
      mjModel* m1 = mj_compile(s1, &vfs);
      if (m1) sd::violation("threaded-differs", "single-threaded compile failed (%s) but the threaded compile succeeded", mjs_getError(s0));
      mj_deleteSpec(s1); mj_deleteSpec(s0);
      sd::probe("rejected_models");
      if (sd::g_args.verbose) { printf("REJECTED: %s | warn: %s\n", err, nd::g_lastwarn); if (sd::g_args.opt.count("dumpxml")) printf("XML %s\n", xml.c_str()); }
      sd::run_end();
      mj_deleteVFS(&vfs);
      continue;
    }
    std::vector<char> ref = model_bytes(mref);
    // `reuse`: the step compiles a spec that was compiled before (second compile, copy of a compiled spec, recompile).  With fusestatic
    // the first compile leaves the spec changed, which is a recorded finding (its own class, so anything else still ends the run)
    bool spec_tainted = false;
    auto same = [&](const mjModel* m, const char* how, const char* reuse = nullptr) {
      if (!m) {
        if (fuse && reuse) {   // the recorded fusestatic finding can also leave a spec that no longer compiles at all
          char cls[96]; snprintf(cls, sizeof cls, "model-differs-after-fusestatic:%s", reuse);
          if (sd::is_tolerated(cls)) { char pb[128]; snprintf(pb, sizeof pb, "tolerated_%s", cls); sd::probe(pb); spec_tainted = true; return; }
          sd::violation(cls, "%s failed although the reference compile succeeded; the spec has fusestatic enabled", how);
        }
        sd::violation("compile-failed", "%s failed although the reference compile succeeded", how);
      }
      std::vector<char> b = model_bytes(m);
      if (b.size() != ref.size() || memcmp(b.data(), ref.data(), ref.size())) {
        if (fuse && reuse) {
          char cls[96]; snprintf(cls, sizeof cls, "model-differs-after-fusestatic:%s", reuse);
          if (sd::is_tolerated(cls)) { char pb[128]; snprintf(pb, sizeof pb, "tolerated_%s", cls); sd::probe(pb); spec_tainted = true; return; }
          sd::violation(cls, "%s produced a different model (%zu vs %zu bytes; first difference in %s); the spec has fusestatic enabled", how, b.size(), ref.size(), diff_where(mref, m).c_str());
        }
        sd::violation("model-differs", "%s produced a different model (%zu vs %zu bytes; first difference in %s)", how, b.size(), ref.size(), diff_where(mref, m).c_str());
      }
    };
    // ---- threaded compile of a freshly parsed spec, under this run's schedule
    mjSpec* s1 = mj_parseXMLString(xml.c_str(), &vfs, err, sizeof err);
    s1->compiler.usethread = 1;
    if (cold & 1) { clear_cache(); sd::probe("cold_cache_steps"); }
    mjModel* m1 = mj_compile(s1, &vfs);
    same(m1, "threaded compile (usethread=1)");
    sd::probe("threaded_compiles");
    if (st[0]) { if (cold & 2) clear_cache(); mjModel* m2 = mj_compile(s1, &vfs); same(m2, "second compile of the same spec", "second-compile"); mj_deleteModel(m2); sd::probe("second_compiles"); }
    if (st[1]) {
      if (cold & 4) clear_cache();
      mjSpec* sc2 = mj_copySpec(s1);
      if (!sc2) sd::violation("copy-failed", "mj_copySpec returned NULL");
      mjModel* m3 = mj_compile(sc2, &vfs); same(m3, "compile of mj_copySpec(spec)", "copy-of-compiled-spec");
      mj_deleteModel(m3);
      // and the copy compiled without threads
      sc2->compiler.usethread = 0;
      mjModel* m4 = mj_compile(sc2, &vfs); same(m4, "single-threaded compile of mj_copySpec(spec)", "copy-of-compiled-spec");
      mj_deleteModel(m4); mj_deleteSpec(sc2); sd::probe("copyspec_compiles");
    }
    if (st[2]) { mjModel* m5 = mj_copyModel(nullptr, m1); same(m5, "mj_copyModel"); mj_deleteModel(m5); sd::probe("copymodel"); }
    if (st[3]) {
      // mj_recompile on a stepped mjData keeps the simulation state
      mjData* d = mj_makeData(m1);
      for (int i = 0; i < m1->nu; i++) d->ctrl[i] = r.uniform(0, 1);
      for (int i = 0; i < m1->nv; i++) d->qvel[i] = r.uniform(-0.5, 0.5);
      int nstep = r.range(1, 6);
      for (int i = 0; i < nstep; i++) mj_step(m1, d);
      std::vector<mjtNum> qpos(d->qpos, d->qpos + m1->nq), qvel(d->qvel, d->qvel + m1->nv), act(d->act, d->act + m1->na), ctrl(d->ctrl, d->ctrl + m1->nu);
      mjtNum t = d->time;
      if (cold & 8) clear_cache();
      int rc = 0;
      bool rraised = false;
      if (fuse) rraised = ND_GUARD({ rc = mj_recompile(s1, &vfs, m1, d); });   // (the fused spec's second compile may build a model on which the engine's own checks fire)
      else rc = mj_recompile(s1, &vfs, m1, d);
      if (fuse && (rraised || rc != 0)) {
        const char* cls = "model-differs-after-fusestatic:recompile";
        if (!sd::is_tolerated(cls)) sd::violation(cls, "mj_recompile of the once-compiled fusestatic spec %s: %s", rraised ? "raised mju_error" : "failed", rraised ? nd::g_lasterr : mjs_getError(s1));
        sd::probe("tolerated_model-differs-after-fusestatic:recompile");
        // the model / data handed to mj_recompile are gone or unusable: end the case here
        mj_deleteSpec(s1); mj_deleteModel(mref); mj_deleteSpec(s0);
        sd::run_end(); mj_deleteVFS(&vfs);
        continue;
      }
      if (rc != 0) sd::violation("recompile-failed", "mj_recompile of an unchanged spec returned %d: %s", rc, mjs_getError(s1));
      same(m1, "mj_recompile (model)", "recompile");
      if (memcmp(&t, &d->time, sizeof t)) sd::violation("recompile-state", "mj_recompile changed time %.17g -> %.17g", t, d->time);
      if (qpos.size() && memcmp(qpos.data(), d->qpos, qpos.size() * sizeof(mjtNum))) sd::violation("recompile-state", "mj_recompile changed qpos");
      if (qvel.size() && memcmp(qvel.data(), d->qvel, qvel.size() * sizeof(mjtNum))) sd::violation("recompile-state", "mj_recompile changed qvel");
      if (act.size() && memcmp(act.data(), d->act, act.size() * sizeof(mjtNum))) sd::violation("recompile-state", "mj_recompile changed act");
      if (ctrl.size() && memcmp(ctrl.data(), d->ctrl, ctrl.size() * sizeof(mjtNum))) sd::violation("recompile-state", "mj_recompile changed ctrl");
      mj_deleteData(d);
      sd::probe("recompiles");
    }
    if (st[4]) {
      // writer -> reader -> compile is C32's subject; here only: the saved XML of the spec compiles (threaded) to the same bytes
      // when nothing but the compiler's own schedule differs between the two compiles of the re-read spec
      mjSpec* s3 = mj_parseXMLString(xml.c_str(), &vfs, err, sizeof err);
      s3->compiler.usethread = 1;
      if (cold & 16) clear_cache();
      mjModel* a = mj_compile(s3, &vfs); same(a, "threaded compile of a re-parsed spec");
      mj_deleteModel(a); mj_deleteSpec(s3); sd::probe("reparse_compiles");
    }
    if (st[4] && !files.empty() && rc.chance(0.5)) {
      // a mesh file is replaced in the VFS by a slightly different one (lowest mantissa bit of some vertex coordinates) under the same name:
      // the compile that follows finds the old file's processed mesh in the cache and must notice that the file changed - its model must
      // equal the model compiled from the same spec and files with an empty cache
      int fi = rc.below((int)files.size());
      std::string nb = files[fi].second; int nvtx = 0; memcpy(&nvtx, nb.data(), sizeof(int));
      for (int k = 0, n = rc.range(1, 4); k < n; k++) { size_t off = 4 * sizeof(int) + sizeof(float) * (size_t)rc.below(3 * nvtx); nb[off] ^= 1; }
      mj_deleteFileVFS(&vfs, files[fi].first.c_str());
      if (mj_addBufferVFS(&vfs, files[fi].first.c_str(), nb.data(), (int)nb.size())) { fprintf(stderr, "harness: cannot replace %s in the VFS\n", files[fi].first.c_str()); return 2; }
      mjSpec* sw = mj_parseXMLString(xml.c_str(), &vfs, err, sizeof err); sw->compiler.usethread = rc.chance(0.5);
      mjModel* mwarm = mj_compile(sw, &vfs);
      clear_cache();
      mjSpec* sk = mj_parseXMLString(xml.c_str(), &vfs, err, sizeof err); sk->compiler.usethread = 0;
      mjModel* mcold = mj_compile(sk, &vfs);
      if (!mwarm || !mcold) sd::violation("compile-failed", "compile after replacing mesh file %s failed (%s cache): %s", files[fi].first.c_str(), mwarm ? "cold" : "warm", mjs_getError(mwarm ? sk : sw));
      std::vector<char> bw = model_bytes(mwarm), bc = model_bytes(mcold);
      if (bw != bc) sd::violation("stale-asset", "after mesh file %s was replaced in the VFS, the compile that found the old file in the asset cache differs from the compile with an empty cache (first difference in %s)", files[fi].first.c_str(), diff_where(mcold, mwarm).c_str());
      mj_deleteModel(mwarm); mj_deleteModel(mcold); mj_deleteSpec(sw); mj_deleteSpec(sk);
      sd::probe("replaced_mesh_files");
    }
    if (st[5] && !fuse) {
      // mj_recompile after an edit: the state of everything that still exists is preserved, and the model equals a fresh compile of the edited spec
      mjData* d = mj_makeData(m1);
      for (int i = 0; i < m1->nu; i++) d->ctrl[i] = rc.uniform(0, 1);
      for (int i = 0; i < m1->nv; i++) d->qvel[i] = rc.uniform(-0.5, 0.5);
      for (int i = 0, n = rc.range(1, 5); i < n; i++) mj_step(m1, d);
      int nq = m1->nq, nv = m1->nv, na = m1->na, nu = m1->nu;
      std::vector<mjtNum> qpos(d->qpos, d->qpos + nq), qvel(d->qvel, d->qvel + nv), act(d->act, d->act + na), ctrl(d->ctrl, d->ctrl + nu);
      mjtNum t = d->time;
      mjsBody* w = mjs_findBody(s1, "world");
      mjsBody* nb = mjs_addBody(w, nullptr); nb->pos[0] = 1.5; nb->pos[2] = 0.7; mjs_setName(nb->element, "edit_body");
      mjsJoint* nj = mjs_addJoint(nb, nullptr); nj->type = mjJNT_HINGE; nj->axis[0] = 0; nj->axis[1] = 1; nj->axis[2] = 0; mjs_setName(nj->element, "edit_joint");
      mjsGeom* ng = mjs_addGeom(nb, nullptr); ng->type = mjGEOM_CAPSULE; ng->size[0] = 0.03; ng->size[1] = 0.1;
      mjsGeom* wg = mjs_addGeom(w, nullptr); wg->type = mjGEOM_BOX; wg->size[0] = wg->size[1] = wg->size[2] = 0.04; wg->pos[0] = -1.5; wg->contype = 0; wg->conaffinity = 0;
      if (cold & 32) clear_cache();
      int rcode = mj_recompile(s1, &vfs, m1, d);
      if (rcode != 0) sd::violation("recompile-failed", "mj_recompile after adding a hinged body and a static geom returned %d: %s", rcode, mjs_getError(s1));
      if (m1->nq != nq + 1 || m1->nv != nv + 1 || m1->na != na || m1->nu != nu) sd::violation("recompile-state", "sizes after the edit: nq %d->%d nv %d->%d na %d->%d nu %d->%d (expected +1 +1 0 0)", nq, (int)m1->nq, nv, (int)m1->nv, na, (int)m1->na, nu, (int)m1->nu);
      if (memcmp(&t, &d->time, sizeof t)) sd::violation("recompile-state", "mj_recompile after an edit changed time %.17g -> %.17g", t, d->time);
      if (nq && memcmp(qpos.data(), d->qpos, nq * sizeof(mjtNum))) sd::violation("recompile-state", "mj_recompile after an edit changed the qpos of joints that still exist");
      if (nv && memcmp(qvel.data(), d->qvel, nv * sizeof(mjtNum))) sd::violation("recompile-state", "mj_recompile after an edit changed the qvel of joints that still exist");
      if (na && memcmp(act.data(), d->act, na * sizeof(mjtNum))) sd::violation("recompile-state", "mj_recompile after an edit changed act");
      if (nu && memcmp(ctrl.data(), d->ctrl, nu * sizeof(mjtNum))) sd::violation("recompile-state", "mj_recompile after an edit changed ctrl");
      if (d->qpos[nq] != m1->qpos0[nq] || d->qvel[nv] != 0) sd::violation("recompile-state", "the new joint starts at qpos %.17g (qpos0 %.17g), qvel %.17g", d->qpos[nq], m1->qpos0[nq], d->qvel[nv]);
      // the recompiled model equals a fresh compile of a copy of the edited spec
      mjSpec* sc3 = mj_copySpec(s1);
      mjModel* mfresh = sc3 ? mj_compile(sc3, &vfs) : nullptr;
      if (!mfresh) sd::violation("compile-failed", "a copy of the edited spec does not compile: %s", sc3 ? mjs_getError(sc3) : "mj_copySpec returned NULL");
      std::vector<char> b1 = model_bytes(m1), b2 = model_bytes(mfresh);
      if (b1 != b2) sd::violation("model-differs", "mj_recompile of the edited spec and a fresh compile of its copy give different models (%zu vs %zu bytes; first difference in %s)", b1.size(), b2.size(), diff_where(m1, mfresh).c_str());
      mj_deleteModel(mfresh); mj_deleteSpec(sc3);
      mj_deleteData(d);
      sd::probe("edit_recompiles");
    }
    mj_deleteModel(m1); mj_deleteSpec(s1);
    mj_deleteModel(mref); mj_deleteSpec(s0);
    sd::run_end();
    mj_deleteVFS(&vfs);
    if (!files.empty()) sd::probe("cases_with_mesh_files");
    if (vsim::stats().max_runnable >= 2) sd::probe("runs_with_parallel_compile");
    if (nmuscle >= 2) sd::probe("cases_with_lengthrange_pool");
    est_len = (est_len * 7 + vsim::stats().opportunities + 8) / 8;
  }
  sd::g_agg.print(stdout);
  return 0;
}
