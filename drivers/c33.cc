// C33: compilation is deterministic and copy-invariant.
// System under test: the whole compiler (user_model.cc, user_threadpool.cc, user_mesh.cc, user_objects.cc, user_api.cc)
// in the sim / simtsan variant.  The asset pool (meshes + textures) and the actuator length-range pool run as
// simulated threads: std::thread / mutex / condition_variable and hardware_concurrency() are the simulator's.
// Per case: a generated spec with several inline and builtin meshes, builtin textures (with random marks) and muscle
// actuators.  Reference = bytes of the model compiled with usethread=0; then the same spec compiled with usethread=1
// under the case's schedule, compiled a second time, a deep copy (mj_copySpec) compiled, mj_copyModel, and
// mj_recompile on a stepped mjData.  All model bytes must be identical; recompile must preserve the state.
#include "simdrv.h"
#include "natdrv.h"

using nd::Rng;

static std::string f(double v) { char b[40]; snprintf(b, sizeof b, "%.5g", v); return b; }

struct Shape { const char* verts; const char* faces; int nv; };
static const Shape kShapes[] = {
    {"0 0 0  1 0 0  0 1 0  0 0 1", "0 2 1  0 1 3  0 3 2  1 2 3", 4},
    {"-1 -1 0  1 -1 0  1 1 0  -1 1 0  0 0 1.5", "0 2 1  0 3 2  0 1 4  1 2 4  2 3 4  3 0 4", 5},
    {"-1 -1 -1  1 -1 -1  1 1 -1  -1 1 -1  -1 -1 1  1 -1 1  1 1 1  -1 1 1", "0 2 1  0 3 2  4 5 6  4 6 7  0 1 5  0 5 4  1 2 6  1 6 5  2 3 7  2 7 6  3 0 4  3 4 7", 8},
    {"1 0 0  -1 0 0  0 1 0  0 -1 0  0 0 1  0 0 -1", "0 2 4  2 1 4  1 3 4  3 0 4  2 0 5  1 2 5  3 1 5  0 3 5", 6},
};

static std::string gen_xml(Rng& r, int* nmesh_out, int* ntex_out, int* nmuscle_out, const std::set<int>& mdrop) {
  int elem = 0;
  auto keep = [&]() { return !mdrop.count(elem++); };
  std::string asset, geoms, x;
  int nmesh = 0, ntex = 0;
  int want_mesh = r.range(2, 8), want_tex = r.range(1, 6);
  for (int i = 0; i < want_mesh; i++) {
    if (!keep()) { for (int k = 0; k < 40; k++) r.next(); continue; }
    Rng q(r.next());
    for (int k = 0; k < 39; k++) r.next();
    std::string nm = "mesh" + std::to_string(i);
    std::string a = "<mesh name=\"" + nm + "\" ";
    int kind = q.below(10);
    if (kind < 5) {
      const Shape& sh = kShapes[q.below(4)];
      // jitter vertices a little (orientation of the faces is preserved)
      std::string v; const char* p = sh.verts;
      for (int k = 0; k < 3 * sh.nv; k++) { double val = strtod(p, (char**)&p); v += f(val + q.uniform(-0.08, 0.08)) + " "; }
      a += "vertex=\"" + v + "\" face=\"" + sh.faces + "\"";
      if (q.chance(0.5)) a += " scale=\"" + f(q.uniform(0.05, 0.3)) + " " + f(q.uniform(0.05, 0.3)) + " " + f(q.uniform(0.05, 0.3)) + "\"";
      if (q.chance(0.3)) a += " inertia=\"" + std::string(q.chance(0.5) ? "shell" : "exact") + "\"";
      if (q.chance(0.3)) a += " smoothnormal=\"true\"";
      if (q.chance(0.2)) a += " refpos=\"0.1 0 0.05\" refquat=\"0.7071 0.7071 0 0\"";
    } else {
      int b = q.below(7);
      switch (b) {
        case 0: a += "builtin=\"sphere\" params=\"" + std::to_string(q.range(0, 3)) + "\""; break;
        case 1: a += "builtin=\"hemisphere\" params=\"" + std::to_string(q.range(1, 3)) + "\""; break;
        case 2: a += "builtin=\"cone\" params=\"" + std::to_string(q.range(3, 24)) + " " + f(q.uniform(0.1, 1.0)) + "\""; break;
        case 3: a += "builtin=\"supersphere\" params=\"" + std::to_string(q.range(4, 14)) + " " + f(q.uniform(0.3, 1.5)) + " " + f(q.uniform(0.3, 1.5)) + "\""; break;
        case 4: a += "builtin=\"supertorus\" params=\"" + std::to_string(q.range(4, 14)) + " " + f(q.uniform(0.1, 0.4)) + " " + f(q.uniform(0.5, 1.5)) + " " + f(q.uniform(0.5, 1.5)) + "\""; break;
        case 5: a += "builtin=\"wedge\" params=\"" + std::to_string(q.range(2, 12)) + " " + std::to_string(q.range(2, 12)) + " " + f(q.uniform(20, 60)) + " " + f(q.uniform(20, 60)) + " " + f(q.uniform(0, 0.5)) + "\""; break;
        default: a += "builtin=\"plate\" params=\"" + std::to_string(q.range(2, 24)) + " " + std::to_string(q.range(2, 24)) + "\""; break;
      }
      a += " scale=\"" + f(q.uniform(0.05, 0.2)) + " " + f(q.uniform(0.05, 0.2)) + " " + f(q.uniform(0.05, 0.2)) + "\"";
    }
    a += "/>";
    asset += a;
    nmesh++;
    geoms += "<geom name=\"g_" + nm + "\" type=\"mesh\" mesh=\"" + nm + "\" contype=\"0\" conaffinity=\"0\" pos=\"" + f(0.2 * i) + " 0 0\"/>";
  }
  std::vector<std::string> tex2d;
  for (int i = 0; i < want_tex; i++) {
    if (!keep()) { for (int k = 0; k < 20; k++) r.next(); continue; }
    Rng q(r.next());
    for (int k = 0; k < 19; k++) r.next();
    std::string nm = "tex" + std::to_string(i);
    static const char* types[] = {"2d", "cube", "skybox"};
    static const char* built[] = {"checker", "gradient", "flat"};
    int ty = q.below(3);
    int w = 4 * q.range(1, 16), h = ty == 0 ? 4 * q.range(1, 16) : w;
    if (ty != 0 && q.chance(0.3)) h = 6 * w;
    std::string a = "<texture name=\"" + nm + "\" type=\"" + types[ty] + "\" builtin=\"" + built[q.below(3)] + "\" width=\"" + std::to_string(w) + "\" height=\"" + std::to_string(h) +
                    "\" rgb1=\"" + f(q.unit()) + " " + f(q.unit()) + " " + f(q.unit()) + "\" rgb2=\"" + f(q.unit()) + " " + f(q.unit()) + " " + f(q.unit()) + "\"";
    int mk = q.below(4);
    if (mk == 1) a += " mark=\"edge\" markrgb=\"1 1 1\"";
    else if (mk == 2) a += " mark=\"cross\" markrgb=\"0 0 0\"";
    else if (mk == 3) a += " mark=\"random\" random=\"" + f(q.uniform(0.01, 0.3)) + "\" markrgb=\"1 0 1\"";
    a += "/>";
    asset += a;
    if (ty == 0) tex2d.push_back(nm);
    ntex++;
  }
  for (size_t i = 0; i < tex2d.size(); i++) asset += "<material name=\"mat" + std::to_string(i) + "\" texture=\"" + tex2d[i] + "\" texrepeat=\"2 2\"/>";
  // articulated part with muscles (so that the length-range pool runs)
  int nlink = r.range(1, 4);
  int nmuscle = 0;
  std::string bodies, tendons, acts;
  std::string close;
  for (int i = 0; i < nlink; i++) {
    bodies += "<body name=\"l" + std::to_string(i) + "\" pos=\"" + (i ? "0 0 -0.3" : "0 0 1") + "\"><joint name=\"j" + std::to_string(i) + "\" type=\"hinge\" axis=\"0 1 0\" range=\"-1 1\" limited=\"true\" damping=\"0.1\"/>"
              "<geom type=\"capsule\" size=\"0.03\" fromto=\"0 0 0 0 0 -0.3\"/><site name=\"s" + std::to_string(i) + "\" pos=\"0.05 0 -0.15\"/>";
    close += "</body>";
  }
  bodies += close;
  int want_muscle = r.range(0, 5);
  for (int i = 0; i < want_muscle; i++) {
    if (!keep()) { r.next(); r.next(); continue; }
    int j = r.below(nlink); bool viat = r.chance(0.4) && nlink >= 2;
    if (viat) {
      int a = r.below(nlink), b = (a + 1 + r.below(nlink - 1)) % nlink;
      tendons += "<spatial name=\"t" + std::to_string(i) + "\"><site site=\"s" + std::to_string(a) + "\"/><site site=\"s" + std::to_string(b) + "\"/></spatial>";
      acts += "<muscle name=\"m" + std::to_string(i) + "\" tendon=\"t" + std::to_string(i) + "\"/>";
    } else { r.next(); acts += "<muscle name=\"m" + std::to_string(i) + "\" joint=\"j" + std::to_string(j) + "\"/>"; }
    nmuscle++;
  }
  x = "<mujoco model=\"c33\"><compiler angle=\"radian\"><lengthrange inttotal=\"0.6\" interval=\"0.2\" timestep=\"0.02\" tolrange=\"100\"/></compiler><option timestep=\"0.005\"/>";
  x += "<asset>" + asset + "</asset><worldbody><site name=\"sw\" pos=\"0.2 0 1.2\"/><body name=\"meshes\" pos=\"0 1 0.5\"><freejoint/>" + geoms + "<geom size=\"0.05\"/></body>" + bodies + "</worldbody>";
  if (!tendons.empty()) x += "<tendon>" + tendons + "</tendon>";
  if (!acts.empty()) x += "<actuator>" + acts + "</actuator>";
  x += "</mujoco>";
  *nmesh_out = nmesh; *ntex_out = ntex; *nmuscle_out = nmuscle;
  return x;
}

static std::vector<char> model_bytes(const mjModel* m) {
  std::vector<char> b((size_t)mj_sizeModel(m));
  mj_saveModel(m, nullptr, b.data(), (int)b.size());
  return b;
}
static std::string diff_where(const mjModel* a, const mjModel* b) {
  // name the first differing array (for the report; the verdict is the byte comparison)
  if (!a || !b) return "one model missing";
#define X(name) if (a->name != b->name) return "size " #name;
  MJMODEL_SIZES
#undef X
  {
    const mjModel* m = a;
    MJMODEL_POINTERS_PREAMBLE(m)
#define XNV X
#define X(type, name, nr, nc) if (memcmp(a->name, b->name, sizeof(type) * (size_t)(m->nr) * (nc))) { \
      size_t n_ = (size_t)(m->nr) * (nc), i_ = 0; while (i_ < n_ && !memcmp(&a->name[i_], &b->name[i_], sizeof(type))) i_++; \
      char buf_[200]; snprintf(buf_, sizeof buf_, "array " #name "[%zu of %zu]: %.9g vs %.9g", i_, n_, (double)a->name[i_], (double)b->name[i_]); return buf_; }
    MJMODEL_POINTERS
#undef X
#undef XNV
  }
  if (memcmp(&a->opt, &b->opt, sizeof a->opt)) return "opt";
  if (memcmp(&a->vis, &b->vis, sizeof a->vis)) return "vis";
  if (memcmp(&a->stat, &b->stat, sizeof a->stat)) return "stat";
  return "header/flags";
}

static void c33_error(const char* msg) {
  snprintf(nd::g_lasterr, sizeof nd::g_lasterr, "%s", msg);
  if (vsim::active() && vsim::self() != 0) sd::violation("error-in-worker", "mju_error raised on compiler worker thread %d: %s", vsim::self(), msg);
  if (nd::g_jmp) longjmp(*nd::g_jmp, 1);
  sd::violation("unexpected-error", "mju_error outside a guarded call: %s", msg);
}

int main(int argc, char** argv) {
  sd::no_aslr(argv);
  sd::g_property = "C33"; nd::g_property = "C33";
  sd::parse_args(argc, argv);
  nd::parse_args(argc, argv);
  sd::install_handlers();
  sd::engine_warmup();
  sd::use_caching_alloc();
  sd::CacheAlloc::poison_on_free = true;   // a worker still using an mjData that the compiler already deleted reads garbage
  mju_user_error = c33_error; mju_user_warning = nd::on_warning;
  setvbuf(stdout, 0, _IOLBF, 0);
  {
    // process-global lazy initialisation in the compiler (asset cache, registries, function-local statics) must not depend on
    // which run of a batch touches it first: one threaded compile in a simulation of its own before the first case
    Rng rw(12345); int a, b, c;
    std::string wx = gen_xml(rw, &a, &b, &c, {});
    vsim::Config c0; c0.seed = 1; c0.policy = vsim::P_STICKY; c0.sticky_ppm = 0; c0.hw_concurrency = 4;
    vsim::begin(c0);
    char werr[500] = "";
    for (int pass = 0; pass < 2; pass++) {
      mjSpec* ws = mj_parseXMLString(wx.c_str(), nullptr, werr, sizeof werr);
      if (ws) { ws->compiler.usethread = pass; mjModel* wm = mj_compile(ws, nullptr); if (wm) { mjData* wd = mj_makeData(wm); mj_step(wm, wd); mj_recompile(ws, nullptr, wm, wd); mjSpec* wc = mj_copySpec(ws); mj_deleteSpec(wc); mj_deleteData(wd); mj_deleteModel(wm); } mj_deleteSpec(ws); }
    }
    vsim::end();
  }
  uint64_t est_len = 2000;
  for (uint64_t s = sd::g_args.seed0; s < sd::g_args.seed0 + sd::g_args.n; s++) {
    Rng r(s);
    int nmesh = 0, ntex = 0, nmuscle = 0;
    std::string xml = gen_xml(r, &nmesh, &ntex, &nmuscle, nd::g_args.mdrop);
    // steps of the case (the minimiser may drop any of them): 0 second compile, 1 copySpec, 2 copyModel, 3 recompile, 4 reparse+compile
    bool st[5]; for (int i = 0; i < 5; i++) st[i] = !sd::g_args.drop.count(i) && r.chance(0.75);
    char sc[200]; snprintf(sc, sizeof sc, "meshes=%d textures=%d muscles=%d steps=%d%d%d%d%d", nmesh, ntex, nmuscle, st[0], st[1], st[2], st[3], st[4]);
    sd::g_scenario = sc;
    sd::Rng r2(s ^ 0x5DEECE66DULL);
    vsim::Config cfg = sd::swarm(r2, {0, 0, 100, 1000, 10000}, {}, est_len);
    cfg.starve_victim = r.range(0, 4);
    cfg.opp_cap = 2000000000ULL;
    sd::apply_overrides(cfg);
    char err[1000] = "";
    if (sd::g_args.opt.count("dumpxml")) printf("XML %s\n", xml.c_str());
    sd::run_begin(s, cfg);
    // ---- reference: single-threaded compile of a freshly parsed spec
    mjSpec* s0 = mj_parseXMLString(xml.c_str(), nullptr, err, sizeof err);
    if (!s0) { fprintf(stderr, "harness: generated XML does not parse: %s\n%s\n", err, xml.c_str()); return 2; }
    s0->compiler.usethread = 0;
    mjModel* mref = mj_compile(s0, nullptr);
    if (!mref) {
      snprintf(err, sizeof err, "%s", mjs_getError(s0));
      // the model is rejected: the threaded compile must reject it too
      mjSpec* s1 = mj_parseXMLString(xml.c_str(), nullptr, err, sizeof err);
      s1->compiler.usethread = 1;
      mjModel* m1 = mj_compile(s1, nullptr);
      if (m1) sd::violation("threaded-differs", "single-threaded compile failed (%s) but the threaded compile succeeded", mjs_getError(s0));
      mj_deleteSpec(s1); mj_deleteSpec(s0);
      sd::probe("rejected_models");
      if (sd::g_args.verbose) { printf("REJECTED: %s | warn: %s\n", err, nd::g_lastwarn); if (sd::g_args.opt.count("dumpxml")) printf("XML %s\n", xml.c_str()); }
      sd::run_end();
      continue;
    }
    std::vector<char> ref = model_bytes(mref);
    auto same = [&](const mjModel* m, const char* how) {
      if (!m) sd::violation("compile-failed", "%s failed although the reference compile succeeded", how);
      std::vector<char> b = model_bytes(m);
      if (b.size() != ref.size() || memcmp(b.data(), ref.data(), ref.size()))
        sd::violation("model-differs", "%s produced a different model (%zu vs %zu bytes; first difference in %s)", how, b.size(), ref.size(), diff_where(mref, m).c_str());
    };
    // ---- threaded compile of a freshly parsed spec, under this run's schedule
    mjSpec* s1 = mj_parseXMLString(xml.c_str(), nullptr, err, sizeof err);
    s1->compiler.usethread = 1;
    mjModel* m1 = mj_compile(s1, nullptr);
    same(m1, "threaded compile (usethread=1)");
    sd::probe("threaded_compiles");
    if (st[0]) { mjModel* m2 = mj_compile(s1, nullptr); same(m2, "second compile of the same spec"); mj_deleteModel(m2); sd::probe("second_compiles"); }
    if (st[1]) {
      mjSpec* sc2 = mj_copySpec(s1);
      if (!sc2) sd::violation("copy-failed", "mj_copySpec returned NULL");
      mjModel* m3 = mj_compile(sc2, nullptr); same(m3, "compile of mj_copySpec(spec)");
      mj_deleteModel(m3);
      // and the copy compiled without threads
      sc2->compiler.usethread = 0;
      mjModel* m4 = mj_compile(sc2, nullptr); same(m4, "single-threaded compile of mj_copySpec(spec)");
      mj_deleteModel(m4); mj_deleteSpec(sc2); sd::probe("copyspec_compiles");
    }
    if (st[2]) { mjModel* m5 = mj_copyModel(nullptr, m1); same(m5, "mj_copyModel"); mj_deleteModel(m5); sd::probe("copymodel"); }
    if (st[3]) {
      // mj_recompile on a stepped mjData keeps the simulation state
      mjData* d = mj_makeData(m1);
      for (int i = 0; i < m1->nu; i++) d->ctrl[i] = r.uniform(0, 1);
      for (int i = 0; i < m1->nv; i++) d->qvel[i] = r.uniform(-0.5, 0.5);
      int nstep = r.range(1, 6);
      for (int i = 0; i < nstep; i++) mj_step(m1, d);
      std::vector<mjtNum> qpos(d->qpos, d->qpos + m1->nq), qvel(d->qvel, d->qvel + m1->nv), act(d->act, d->act + m1->na), ctrl(d->ctrl, d->ctrl + m1->nu);
      mjtNum t = d->time;
      int rc = mj_recompile(s1, nullptr, m1, d);
      if (rc != 0) sd::violation("recompile-failed", "mj_recompile of an unchanged spec returned %d: %s", rc, mjs_getError(s1));
      same(m1, "mj_recompile (model)");
      if (memcmp(&t, &d->time, sizeof t)) sd::violation("recompile-state", "mj_recompile changed time %.17g -> %.17g", t, d->time);
      if (qpos.size() && memcmp(qpos.data(), d->qpos, qpos.size() * sizeof(mjtNum))) sd::violation("recompile-state", "mj_recompile changed qpos");
      if (qvel.size() && memcmp(qvel.data(), d->qvel, qvel.size() * sizeof(mjtNum))) sd::violation("recompile-state", "mj_recompile changed qvel");
      if (act.size() && memcmp(act.data(), d->act, act.size() * sizeof(mjtNum))) sd::violation("recompile-state", "mj_recompile changed act");
      if (ctrl.size() && memcmp(ctrl.data(), d->ctrl, ctrl.size() * sizeof(mjtNum))) sd::violation("recompile-state", "mj_recompile changed ctrl");
      mj_deleteData(d);
      sd::probe("recompiles");
    }
    if (st[4]) {
      // writer -> reader -> compile is C32's subject; here only: the saved XML of the spec compiles (threaded) to the same bytes
      // when nothing but the compiler's own schedule differs between the two compiles of the re-read spec
      mjSpec* s3 = mj_parseXMLString(xml.c_str(), nullptr, err, sizeof err);
      s3->compiler.usethread = 1;
      mjModel* a = mj_compile(s3, nullptr); same(a, "threaded compile of a re-parsed spec");
      mj_deleteModel(a); mj_deleteSpec(s3); sd::probe("reparse_compiles");
    }
    mj_deleteModel(m1); mj_deleteSpec(s1);
    mj_deleteModel(mref); mj_deleteSpec(s0);
    sd::run_end();
    if (vsim::stats().max_runnable >= 2) sd::probe("runs_with_parallel_compile");
    if (nmuscle >= 2) sd::probe("cases_with_lengthrange_pool");
    est_len = (est_len * 7 + vsim::stats().opportunities + 8) / 8;
  }
  sd::g_agg.print(stdout);
  return 0;
}
