// C18: sleeping islands are frozen and wake on the documented events.
// History machine over multi-tree scenes that settle quickly (large sleep tolerance): steps interleaved with
// user events on sleeping trees at seeded instants; invariants are checked after every step.
#include "hist.h"

using namespace nd;
using namespace hs;

enum Ev { EV_STEPS, EV_QPOS, EV_QVEL, EV_QVEL_NEGZERO, EV_QFRC, EV_XFRC, EV_ZEROFRC, EV_MOCAP, EV_EQ, EV_FORWARD, EV_N };
static const char* kEv[] = {"steps", "qpos", "qvel", "qvel(-0.0)", "qfrc", "xfrc", "zerofrc", "mocap", "eq", "forward"};

struct TreeInfo { std::vector<int> bodies; std::vector<std::pair<int, int>> qslices; int dofadr, dofnum; };
static std::vector<TreeInfo> tree_info(const mjModel* m) {
  std::vector<TreeInfo> t(m->ntree);
  for (int i = 0; i < m->ntree; i++) { t[i].dofadr = m->tree_dofadr[i]; t[i].dofnum = m->tree_dofnum[i]; }
  for (int b = 1; b < m->nbody; b++) {
    int tr = m->body_treeid[b];
    if (tr < 0) continue;
    t[tr].bodies.push_back(b);
    for (int j = m->body_jntadr[b]; j < m->body_jntadr[b] + m->body_jntnum[b]; j++) {
      int w = m->jnt_type[j] == mjJNT_FREE ? 7 : m->jnt_type[j] == mjJNT_BALL ? 4 : 1;
      t[tr].qslices.push_back({m->jnt_qposadr[j], w});
    }
  }
  return t;
}
static bool cycle_of(const mjModel* m, const mjData* d, int i, std::vector<int>* out) {
  int cur = i, cnt = 0;
  do {
    int nx = d->tree_asleep[cur];
    if (nx < 0 || nx >= m->ntree) return false;
    if (out) out->push_back(cur);
    cur = nx;
    if (++cnt > m->ntree) return false;
  } while (cur != i);
  return true;
}

int main(int argc, char** argv) {
  setup(argc, argv, "C18");
  use_caching_alloc();
  Supply sup; sup.init();
  // only the repo's sleep test models from the corpus
  {
    std::vector<std::string> keep;
    for (auto& p : sup.corpus) if (p.find("sleep") != std::string::npos) keep.push_back(p);
    sup.corpus = keep;
    sup.corpus_share = 0.15;
  }
  for (uint64_t s = g_args.seed0; s < g_args.seed0 + g_args.n; s++) {
    begin_case(s);
    ND_CASE_GUARD();
    Rng r(s);
    mg::GenOpts go;
    go.force_sleep = true; go.actuators = r.chance(0.35); go.allow_rk4 = false;   // (actuators: controls are written into both twins; a sleeping tree's actuators are skipped by the engine)
    go.sleep_tolerance = r.chance(0.5) ? 0.2 : 0.05;
    go.min_trees = 3; go.max_trees = 8; go.max_depth = 1;
    std::string mdesc;
    bool from_corpus = false;
    mjModel* m = sup.get(r, go, &mdesc, &from_corpus);
    if (!m) { end_case(); continue; }
    if (!(m->opt.enableflags & mjENBL_SLEEP) || m->ntree == 0) { mj_deleteModel(m); count("model_skipped_no_sleep"); end_case(); continue; }
    // twin with the flag off (flex-free models only): must be bit-equal while no tree of A has ever slept
    mjModel* m0 = mj_copyModel(nullptr, m);
    m0->opt.enableflags &= ~mjENBL_SLEEP;
    std::vector<TreeInfo> ti = tree_info(m);
    int nev = r.range(6, 30);
    struct E { int kind, n; double v; };
    std::vector<E> evs;
    for (int i = 0; i < nev; i++) {
      int k = r.below(100);
      E e{k < 55 ? EV_STEPS : k < 62 ? EV_QPOS : k < 69 ? EV_QVEL : k < 72 ? EV_QVEL_NEGZERO : k < 78 ? EV_QFRC : k < 84 ? EV_XFRC : k < 88 ? EV_ZEROFRC : k < 92 ? EV_MOCAP : k < 96 ? EV_EQ : EV_FORWARD,
          r.range(5, 60), r.uniform(0.2, 1.0) * (r.chance(0.5) ? 1 : -1)};
      if (!g_args.drop.count(i)) evs.push_back(e);
    }
    g_scenario = mdesc + " events:";
    for (auto& e : evs) { char b[40]; snprintf(b, sizeof b, " %s(%d)", kEv[e.kind], e.n); g_scenario += b; }
    mjData* A = mu::make_data(m, s + 11);
    mjData* T = mu::make_data(m0, s + 12);
    bool twin_valid = m->nflex == 0;
    std::vector<mjtNum> qprev(m->nq);
    std::vector<int> aprev(m->ntree);
    std::vector<char> touched(m->ntree, 0);       // user changed this tree since the last compute call
    std::vector<std::vector<int>> must_wake;      // cycles that must be awake after the next compute call
    uint64_t sig = fnv_str(mdesc);
    long nsleep = 0, nwake = 0, frozen = 0;
    bool dead = false;

    auto check_after = [&](const char* what, bool stepped) {
      // I1 closed cycles
      for (int i = 0; i < m->ntree; i++) {
        if (A->tree_asleep[i] < 0) continue;
        std::vector<int> cyc;
        if (!cycle_of(m, A, i, &cyc)) violation("broken-cycle", "after %s: tree %d (tree_asleep=%d) is not on a closed cycle of sleeping trees", what, i, A->tree_asleep[i]);
        for (int t : cyc) if (A->tree_asleep[t] < 0) violation("broken-cycle", "after %s: cycle of tree %d passes through awake tree %d", what, i, t);
      }
      // I2 frozen state
      for (int i = 0; i < m->ntree; i++) {
        if (aprev[i] >= 0 && A->tree_asleep[i] < 0) nwake++;
        if (aprev[i] < 0 && A->tree_asleep[i] >= 0) nsleep++;
        if (!(aprev[i] >= 0 && A->tree_asleep[i] >= 0) || touched[i]) continue;
        frozen++;
        for (auto [adr, w] : ti[i].qslices)
          if (memcmp(&qprev[adr], A->qpos + adr, w * sizeof(mjtNum))) violation("sleeping-tree-moved", "after %s: qpos of sleeping tree %d changed at qpos[%d]", what, i, adr);
        for (int j = 0; j < ti[i].dofnum; j++) {
          mjtNum z = 0;
          if (memcmp(A->qvel + ti[i].dofadr + j, &z, sizeof z)) violation("sleeping-tree-moved", "after %s: qvel[%d] of sleeping tree %d is not zero (%.17g)", what, ti[i].dofadr + j, i, A->qvel[ti[i].dofadr + j]);
        }
      }
      // I3 wake on user events: the whole former cycle is awake after the position stage; a full step cannot put
      // it back to sleep (a woken tree needs mjMINAWAKE quiet steps first)
      for (auto& cyc : must_wake)
        for (int t : cyc)
          if (A->tree_asleep[t] >= 0) violation("missed-wake", "after %s: tree %d is still asleep although the user changed qpos/qvel/applied force of a tree of its island", what, t);
      must_wake.clear();
      // I4 touching / constrained pairs are not split between asleep and awake (active contacts with penetration only)
      for (int c = 0; c < A->ncon; c++) {
        const mjContact* con = A->contact + c;
        if (con->geom[0] < 0 || con->geom[1] < 0 || con->dist >= 0 || con->efc_address < 0 || con->exclude) continue;
        int t1 = m->body_treeid[m->geom_bodyid[con->geom[0]]], t2 = m->body_treeid[m->geom_bodyid[con->geom[1]]];
        if (t1 < 0 || t2 < 0 || t1 == t2) continue;
        bool s1 = A->tree_asleep[t1] >= 0, s2 = A->tree_asleep[t2] >= 0;
        if (!stepped && s1 != s2) violation("split-contact", "after %s: penetrating contact %d joins sleeping tree %d and awake tree %d", what, c, s1 ? t1 : t2, s1 ? t2 : t1);
        if (stepped && s1 != s2 && aprev[s1 ? t1 : t2] >= 0) violation("split-contact", "after %s: tree %d slept through a penetrating contact (%d) with awake tree %d", what, s1 ? t1 : t2, c, s1 ? t2 : t1);
      }
      // I4b the same for active equality and tendon-limit rows: the documented wake rule for them is exactly "the row is active", so a
      // row whose Jacobian touches both an asleep and an awake tree means an island was not woken as a whole
      for (int i = 0; i < A->nefc; i++) {
        int ty = A->efc_type[i];
        if (ty != mjCNSTR_EQUALITY && ty != mjCNSTR_LIMIT_TENDON) continue;
        int ta = -1, ts = -1;      // an awake and an asleep tree met in this row
        auto see = [&](int dof, mjtNum v) { if (v == 0) return; int t = m->dof_treeid[dof]; if (t < 0) return; if (A->tree_asleep[t] >= 0) ts = t; else ta = t; };
        if (mj_isSparse(m)) { int adr = A->efc_J_rowadr[i]; for (int k = 0; k < A->efc_J_rownnz[i]; k++) see(A->efc_J_colind[adr + k], A->efc_J[adr + k]); }
        else for (int j = 0; j < m->nv; j++) see(j, A->efc_J[(size_t)i * m->nv + j]);
        if (ta >= 0 && ts >= 0 && (!stepped || aprev[ts] >= 0))
          violation("split-constraint", "after %s: active %s row %d (object %d) couples sleeping tree %d and awake tree %d", what, ty == mjCNSTR_EQUALITY ? "equality" : "tendon-limit", i, A->efc_id[i], ts, ta);
      }
      // derived counters agree with the per-tree array
      int na = 0, nva = 0;
      for (int i = 0; i < m->ntree; i++) if (A->tree_asleep[i] < 0) { na++; nva += ti[i].dofnum; }
      if (A->ntree_awake != na) violation("derived-mismatch", "after %s: ntree_awake=%d but %d trees have tree_asleep<0", what, A->ntree_awake, na);
      if (A->nv_awake != nva) violation("derived-mismatch", "after %s: nv_awake=%d but awake trees have %d dofs", what, A->nv_awake, nva);
      for (int i = 0; i < m->ntree; i++) if (A->tree_awake[i] != (A->tree_asleep[i] < 0)) violation("derived-mismatch", "after %s: tree_awake[%d]=%d, tree_asleep=%d", what, i, A->tree_awake[i], A->tree_asleep[i]);
      std::fill(touched.begin(), touched.end(), 0);
    };
    auto pick_tree = [&]() {
      std::vector<int> asleep;
      for (int i = 0; i < m->ntree; i++) if (A->tree_asleep[i] >= 0 && ti[i].dofnum > 0) asleep.push_back(i);
      if (!asleep.empty() && r.chance(0.85)) return asleep[r.below((int)asleep.size())];
      return r.below(m->ntree);
    };
    auto user_touch = [&](int t, bool wakes) {
      touched[t] = 1;
      if (A->tree_asleep[t] >= 0 && wakes) { std::vector<int> cyc; if (cycle_of(m, A, t, &cyc)) { must_wake.push_back(cyc); for (int x : cyc) touched[x] = 1; } count("events_on_sleeping_tree"); }
    };

    for (auto& e : evs) {
      if (dead) break;
      sig = fnv(&e.kind, sizeof(int), sig);
      switch (e.kind) {
        case EV_STEPS:
          for (int k = 0; k < e.n && !dead; k++) {
            memcpy(qprev.data(), A->qpos, sizeof(mjtNum) * m->nq);
            memcpy(aprev.data(), A->tree_asleep, sizeof(int) * m->ntree);
            if (m->nu && r.chance(0.3)) { for (int i = 0; i < m->nu; i++) { mjtNum c = r.uniform(-1, 1); A->ctrl[i] = c; if (twin_valid) T->ctrl[i] = c; } count("control_writes"); }
            bool any_asleep = false;
            for (int i = 0; i < m->ntree; i++) any_asleep |= aprev[i] >= 0;
            dead = ND_GUARD({ mj_step(m, A); });
            // the engine's own consistency check: a sleeping tree inside a constraint island means the island was not woken as a whole
            if (dead && strstr(g_lasterr, "found sleeping tree")) {
              // name the constraint rows that involve an asleep tree (the arrays of the failed step are still there)
              std::string rows;
              for (int i = 0; i < A->nefc && rows.size() < 300; i++) {
                int ta = -1, ts = -1;
                auto see = [&](int dof, mjtNum v) { if (v == 0) return; int t = m->dof_treeid[dof]; if (t < 0) return; if (A->tree_asleep[t] >= 0) ts = t; else ta = t; };
                if (mj_isSparse(m)) { int adr = A->efc_J_rowadr[i]; for (int k = 0; k < A->efc_J_rownnz[i]; k++) see(A->efc_J_colind[adr + k], A->efc_J[adr + k]); }
                else for (int j = 0; j < m->nv; j++) see(j, A->efc_J[(size_t)i * m->nv + j]);
                if (ts >= 0) { char b[112]; snprintf(b, sizeof b, " row %d type %d id %d (asleep tree %d, awake tree %d, pos %.4g margin %.4g)", i, A->efc_type[i], A->efc_id[i], ts, ta, A->efc_pos[i], A->efc_margin[i]); rows += b; }
              }
              violation("sleeping-tree-in-island", "mj_step raised: %s; coupling rows:%s", g_lasterr, rows.c_str());
            }
            if (dead) break;
            check_after("mj_step", true);
            count("steps");
            if (twin_valid) {
              if (any_asleep) twin_valid = false;
              else {
                bool et = ND_GUARD({ mj_step(m0, T); });
                if (et) { twin_valid = false; break; }
                bool now_asleep = false;
                for (int i = 0; i < m->ntree; i++) now_asleep |= A->tree_asleep[i] >= 0;
                if (now_asleep) { twin_valid = false; break; }   // trees were put to sleep in this very step: velocities zeroed
                static const std::set<std::string> only = {"qpos", "qvel", "act", "qacc", "sensordata", "contact", "efc_force", "qfrc_constraint", "qacc_warmstart"};
                std::set<std::string> ex = {"contact.H"};
                mu::Diff df = mu::compare(m, A, T, ex, &only);
                if (df.differs || A->ncon != T->ncon || A->nefc != T->nefc || memcmp(&A->time, &T->time, sizeof(mjtNum)))
                  violation("sleep-flag-changes-result", "no tree asleep, yet the run with the sleep flag differs from the run without it in %s[%ld] (%s) ncon %d/%d nefc %d/%d", df.field.c_str(),
                            df.index, df.detail.c_str(), A->ncon, T->ncon, A->nefc, T->nefc);
                count("twin_steps");
              }
            }
          }
          break;
        case EV_QPOS: {
          int t = pick_tree();
          if (ti[t].qslices.empty() || touched[t]) break;   // a second change before the engine looks could cancel the first
          auto [adr, w] = ti[t].qslices[0];
          mjtNum dlt = (w == 4 ? 0.05 : 0.02) * (e.v > 0 ? 1 : -1);   // well above rounding: the engine detects the change by comparing recomputed poses
          if (w == 4) { A->qpos[adr + 1] += dlt; mju_normalize4(A->qpos + adr); if (twin_valid) { T->qpos[adr + 1] += dlt; mju_normalize4(T->qpos + adr); } }
          else { int k = w == 7 ? 2 : 0; A->qpos[adr + k] += dlt; if (twin_valid) T->qpos[adr + k] += dlt; }
          user_touch(t, true);
          break;
        }
        case EV_QVEL: case EV_QVEL_NEGZERO: {
          int t = pick_tree();
          if (!ti[t].dofnum) break;
          int j = ti[t].dofadr + r.below(ti[t].dofnum);
          mjtNum v = e.kind == EV_QVEL ? e.v : -0.0;
          if (e.kind == EV_QVEL_NEGZERO && A->tree_asleep[t] < 0) break;   // -0.0 into an awake tree would only add noise
          A->qvel[j] = v; if (twin_valid) T->qvel[j] = v;
          user_touch(t, true);
          break;
        }
        case EV_QFRC: {
          int t = pick_tree();
          if (!ti[t].dofnum) break;
          int j = ti[t].dofadr + r.below(ti[t].dofnum);
          A->qfrc_applied[j] = e.v; if (twin_valid) T->qfrc_applied[j] = e.v;
          user_touch(t, true);
          break;
        }
        case EV_XFRC: {
          int t = pick_tree();
          if (ti[t].bodies.empty()) break;
          int b = ti[t].bodies[r.below((int)ti[t].bodies.size())];
          A->xfrc_applied[6 * b + 2] = 3 * e.v; if (twin_valid) T->xfrc_applied[6 * b + 2] = 3 * e.v;
          user_touch(t, true);
          break;
        }
        case EV_ZEROFRC:
          mju_zero(A->qfrc_applied, m->nv); mju_zero(A->xfrc_applied, 6 * m->nbody);
          if (twin_valid) { mju_zero(T->qfrc_applied, m->nv); mju_zero(T->xfrc_applied, 6 * m->nbody); }
          // pending wake obligations are withdrawn: a force that is zero again when the engine looks does not wake
          must_wake.clear();
          break;
        case EV_MOCAP:
          if (m->nmocap) {
            int t = pick_tree();
            if (ti[t].bodies.empty()) break;
            int b = ti[t].bodies[0];
            for (int k = 0; k < 3; k++) { A->mocap_pos[k] = A->xpos[3 * b + k] + (k == 2 ? 0.04 : 0); if (twin_valid) T->mocap_pos[k] = A->mocap_pos[k]; }
            count("mocap_moves");
          }
          break;
        case EV_EQ:
          if (m->neq) { int q = r.below(m->neq); A->eq_active[q] = !A->eq_active[q]; if (twin_valid) T->eq_active[q] = A->eq_active[q]; count("eq_toggles"); }
          break;
        case EV_FORWARD: {
          memcpy(qprev.data(), A->qpos, sizeof(mjtNum) * m->nq);
          memcpy(aprev.data(), A->tree_asleep, sizeof(int) * m->ntree);
          dead = ND_GUARD({ mj_forward(m, A); });
          if (dead) break;
          if (twin_valid) { bool et = ND_GUARD({ mj_forward(m0, T); }); if (et) twin_valid = false; }
          check_after("mj_forward", false);
          break;
        }
      }
    }
    count("sleep_events", nsleep); count("wake_events", nwake); count("frozen_state_checks", frozen);
    if (dead) count("histories_ended_by_mju_error");
    if (nsleep) { signature(sig); sample(g_scenario); }
    mj_deleteData(A); mj_deleteData(T);
    mj_deleteModel(m); mj_deleteModel(m0);
    end_case();
  }
  print_summary();
  return 0;
}
