// C38: the asset cache behaves as a bounded priority cache.
// System under test: the UNMODIFIED src/user/user_cache.{h,cc} (mjCCache), driven directly from C++.
// Sequential histories are compared op-by-op with a small reference model that encodes only the
// clauses of the statement; concurrent histories (2-3 simulated threads) are checked for
// linearizability against the same model, with invoke/return stamped by the simulator's event counter.
#include <mujoco/mujoco.h>

#include "user/user_cache.h"
#include "simdrv.h"

using namespace sd;

static const int NMODEL = 3, NID = 5, NTS = 3;
static const char* kModels[NMODEL] = {"", "m1", "m2"};   // "" is the model name the compiler's own call sites use
static const char* kIds[NID] = {"a", "b", "c", "d", "e"};
static const char* kTs[NTS] = {"t0", "t1", "t2"};
static const size_t kSizes[6] = {0, 1, 7, 64, 100, 4096};
// asset size and content are functions of (id, timestamp): "the most recently inserted data" has one meaning
static size_t asset_size(int id, int ts) { return kSizes[(id * 7 + ts * 3 + id * ts) % 6]; }
static int asset_data(int id, int ts) { return 1000 + id * 10 + ts; }

enum { INS, POP, HAS, RMMODEL, RESETM, RESETALL, SETCAP, DEL, SIZE, CAP, NOPK };
static const char* kOpName[] = {"ins", "pop", "has", "rm", "resetm", "reset", "cap", "del", "size", "capacity"};
struct Op { int kind, mo, id, ts; size_t cap; };
struct Res { long a = -1, b = -1; bool operator==(const Res& o) const { return a == o.a && b == o.b; } };

// ------------------------------------------------------------------ reference model
struct RefAsset { bool held; int ts; size_t size; int data; unsigned refs; size_t access, order; };
struct Model {
  size_t cap = 0, counter = 0;
  RefAsset a[NID] = {};
  size_t total() const { size_t t = 0; for (auto& x : a) if (x.held) t += x.size; return t; }
  Res apply(const Op& o) {
    Res r;
    switch (o.kind) {
      case INS: {
        size_t sz = asset_size(o.id, o.ts);
        RefAsset& x = a[o.id];
        if (!x.held) {
          if (total() + sz > cap) { r.a = 0; break; }
          x = RefAsset{true, o.ts, sz, asset_data(o.id, o.ts), 1u << o.mo, 0, counter++};
          r.a = 1;
        } else {
          if (total() - x.size + sz > cap) { r.a = 0; break; }
          x.refs |= 1u << o.mo;
          if (x.ts != o.ts) { x.ts = o.ts; x.size = sz; x.data = asset_data(o.id, o.ts); }
          r.a = 1;
        }
        break;
      }
      case POP: {
        RefAsset& x = a[o.id];
        if (x.held && x.ts == o.ts) { x.access++; r.a = 1; r.b = x.data; } else { r.a = 0; }
        break;
      }
      case HAS: r.a = a[o.id].held; break;
      case RMMODEL:
        for (auto& x : a) if (x.held && (x.refs >> o.mo & 1)) { x.refs &= ~(1u << o.mo); if (!x.refs) x.held = false; }
        break;
      case RESETM:
        for (auto& x : a) if (x.held && (x.refs >> o.mo & 1)) x.held = false;
        break;
      case RESETALL:
        for (auto& x : a) x.held = false;
        counter = 0;
        break;
      case SETCAP:
        cap = o.cap;
        while (total() > cap) {
          int best = -1;
          for (int i = 0; i < NID; i++) {
            if (!a[i].held) continue;
            if (best < 0 || a[i].access < a[best].access || (a[i].access == a[best].access && a[i].order < a[best].order)) best = i;
          }
          a[best].held = false;
        }
        break;
      case DEL: a[o.id].held = false; break;
      case SIZE: r.a = (long)total(); break;
      case CAP: r.a = (long)cap; break;
    }
    return r;
  }
  uint64_t hash() const {
    uint64_t h = cap * 1315423911u + counter;
    for (auto& x : a) { h = h * 1099511628211ULL + (x.held ? (uint64_t)(x.ts + 1) * 7 + x.refs * 131 + x.access * 17 + x.order * 1009 : 3); }
    return h;
  }
};

// ------------------------------------------------------------------ real cache adapter
static int modified_cb(const mjResource* r, const char* ts) { return strcmp(r->timestamp, ts) != 0; }
static mjpResourceProvider g_prov;
static Res apply_real(mjCCache& c, const Op& o) {
  Res r;
  mjResource res;
  memset(&res, 0, sizeof res);
  res.provider = &g_prov;
  snprintf(res.timestamp, sizeof res.timestamp, "%s", kTs[o.ts]);
  switch (o.kind) {
    case INS: {
      auto data = std::shared_ptr<const void>(new int(asset_data(o.id, o.ts)), [](const void* p) { delete (const int*)p; });
      r.a = c.Insert(kModels[o.mo], kIds[o.id], &res, data, asset_size(o.id, o.ts));
      break;
    }
    case POP: {
      int got = -1;
      r.a = c.PopulateData(kIds[o.id], &res, [&](const void* p) { got = *(const int*)p; return true; });
      if (r.a) r.b = got;
      break;
    }
    case HAS: r.a = c.HasAsset(kIds[o.id]) != nullptr; break;
    case RMMODEL: c.RemoveModel(kModels[o.mo]); break;
    case RESETM: c.Reset(kModels[o.mo]); break;
    case RESETALL: c.Reset(); break;
    case SETCAP: c.SetCapacity(o.cap); break;
    case DEL: c.DeleteAsset(kIds[o.id]); break;
    case SIZE: r.a = (long)c.Size(); break;
    case CAP: r.a = (long)c.Capacity(); break;
  }
  return r;
}
static std::string op_str(const Op& o) {
  char b[64];
  switch (o.kind) {
    case INS: snprintf(b, sizeof b, "ins(%s,%s,%s)", kModels[o.mo], kIds[o.id], kTs[o.ts]); break;
    case POP: snprintf(b, sizeof b, "pop(%s,%s)", kIds[o.id], kTs[o.ts]); break;
    case HAS: case DEL: snprintf(b, sizeof b, "%s(%s)", kOpName[o.kind], kIds[o.id]); break;
    case RMMODEL: case RESETM: snprintf(b, sizeof b, "%s(%s)", kOpName[o.kind], kModels[o.mo]); break;
    case SETCAP: snprintf(b, sizeof b, "cap(%zu)", o.cap); break;
    default: snprintf(b, sizeof b, "%s()", kOpName[o.kind]);
  }
  return b;
}
static Op gen_op(Rng& r) {
  Op o{};
  int k = r.below(100);
  o.kind = k < 34 ? INS : k < 52 ? POP : k < 58 ? HAS : k < 66 ? RMMODEL : k < 71 ? RESETM : k < 73 ? RESETALL : k < 81 ? SETCAP : k < 88 ? DEL : k < 95 ? SIZE : CAP;
  o.mo = r.below(NMODEL); o.id = r.below(NID); o.ts = r.chance(0.55) ? 0 : r.below(NTS);
  static const size_t caps[] = {0, 8, 80, 120, 300, 5000};
  o.cap = caps[r.below(6)];
  return o;
}

// ------------------------------------------------------------------ linearizability (WGL-style DFS)
struct HOp { Op op; Res res; uint64_t inv, ret; int thread; };
struct FinalObs { long size, cap; bool held[NID]; };
static bool final_matches(const Model& m, const FinalObs& f) {
  if ((long)m.total() != f.size || (long)m.cap != f.cap) return false;
  for (int i = 0; i < NID; i++) if (m.a[i].held != f.held[i]) return false;
  return true;
}
static bool lin_dfs(const std::vector<HOp>& h, unsigned done, const Model& m, const FinalObs& fin, std::set<std::pair<unsigned, uint64_t>>& memo, uint64_t& nodes) {
  unsigned all = (1u << h.size()) - 1;
  if (done == all) return final_matches(m, fin);
  if (!memo.insert({done, m.hash()}).second) return false;
  nodes++;
  // minimal operations: no other pending operation returned before this one was invoked
  uint64_t min_ret = ~0ull;
  for (size_t i = 0; i < h.size(); i++) if (!(done >> i & 1) && h[i].ret < min_ret) min_ret = h[i].ret;
  for (size_t i = 0; i < h.size(); i++) {
    if (done >> i & 1) continue;
    if (h[i].inv > min_ret) continue;
    Model m2 = m;
    Res r = m2.apply(h[i].op);
    if (!(r == h[i].res)) continue;
    if (m2.total() > m2.cap) continue;
    if (lin_dfs(h, done | 1u << i, m2, fin, memo, nodes)) return true;
  }
  return false;
}

int main(int argc, char** argv) {
  no_aslr(argv);
  g_property = "C38";
  parse_args(argc, argv);
  install_handlers();
  engine_warmup();
  setvbuf(stdout, 0, _IOLBF, 0);
  mjp_defaultResourceProvider(&g_prov);
  g_prov.modified = modified_cb;
  for (uint64_t s = g_args.seed0; s < g_args.seed0 + g_args.n; s++) {
    Rng r(s);
    bool concurrent = r.chance(0.6);
    static const size_t caps0[] = {50, 120, 200, 5000};
    size_t cap0 = caps0[r.below(4)];
    vsim::Config cfg = swarm(r, {0, 20000, 200000}, {}, 300);
    cfg.opp_cap = 5000000;
    apply_overrides(cfg);
    std::string desc;
    char b[64];
    snprintf(b, sizeof b, "cap0=%zu ", cap0);
    desc = b;
    if (!concurrent) {
      // ---------------- sequential history, compared op by op
      int nop = r.range(5, 45);
      std::vector<Op> ops;
      for (int i = 0; i < nop; i++) { Op o = gen_op(r); if (!g_args.drop.count(i)) ops.push_back(o); }
      desc += "seq:";
      for (auto& o : ops) desc += " " + op_str(o);
      g_scenario = desc.substr(0, 900);
      mjCCache cache(cap0);
      Model model; model.cap = cap0;
      run_begin(s, cfg);
      int k = 0;
      for (auto& o : ops) {
        Res real = apply_real(cache, o);
        Res want = model.apply(o);
        if (!(real == want)) violation("model-mismatch", "op %d %s returned (%ld,%ld), reference model says (%ld,%ld)", k, op_str(o).c_str(), real.a, real.b, want.a, want.b);
        size_t sz = cache.Size(), cp = cache.Capacity();
        if (sz != model.total()) violation("size-mismatch", "after op %d %s: Size()=%zu but held assets sum to %zu", k, op_str(o).c_str(), sz, model.total());
        if (sz > cp) violation("over-capacity", "after op %d %s: Size()=%zu > Capacity()=%zu", k, op_str(o).c_str(), sz, cp);
        for (int i = 0; i < NID; i++) {
          bool held = cache.HasAsset(kIds[i]) != nullptr;
          if (held != model.a[i].held) violation("held-set-mismatch", "after op %d %s: asset %s held=%d, reference model says %d", k, op_str(o).c_str(), kIds[i], (int)held, (int)model.a[i].held);
        }
        if (o.kind == INS && !real.a) probe("insert_rejected");
        if (o.kind == POP && real.a) probe("lookup_hit");
        k++;
      }
      run_end();
      probe("sequential_histories");
      probe("sequential_ops", ops.size());
    } else {
      // ---------------- concurrent history, checked for linearizability
      int nthreads = r.range(2, 3);
      int total = r.range(4, 12);
      std::vector<std::vector<Op>> plan(nthreads);
      int pre = r.range(0, 3);        // a few sequential ops first so the cache is not empty
      std::vector<Op> preops;
      int idx = 0;
      for (int i = 0; i < pre; i++, idx++) { Op o = gen_op(r); o.kind = INS; if (!g_args.drop.count(idx)) preops.push_back(o); }
      for (int i = 0; i < total; i++, idx++) { Op o = gen_op(r); int t = r.below(nthreads); if (!g_args.drop.count(idx)) plan[t].push_back(o); }
      desc += "pre:";
      for (auto& o : preops) desc += " " + op_str(o);
      for (int t = 0; t < nthreads; t++) { desc += " | T" + std::to_string(t + 1) + ":"; for (auto& o : plan[t]) desc += " " + op_str(o); }
      g_scenario = desc.substr(0, 900);
      mjCCache cache(cap0);
      Model model; model.cap = cap0;
      std::vector<std::vector<HOp>> hist(nthreads);
      run_begin(s, cfg);
      for (auto& o : preops) { Res real = apply_real(cache, o); Res want = model.apply(o); if (!(real == want)) violation("model-mismatch", "sequential prefix op %s returned (%ld,%ld), model (%ld,%ld)", op_str(o).c_str(), real.a, real.b, want.a, want.b); }
      {
        std::vector<std::thread> th;
        for (int t = 0; t < nthreads; t++)
          th.emplace_back([&, t] {
            for (auto& o : plan[t]) {
              HOp h; h.op = o; h.thread = t;
              h.inv = vsim::seq(); vsim::note(50 + o.kind, o.id);
              h.res = apply_real(cache, o);
              vsim::note(70 + o.kind, o.id); h.ret = vsim::seq();
              hist[t].push_back(h);
            }
          });
        for (auto& t : th) t.join();
      }
      FinalObs fin;
      fin.size = (long)cache.Size(); fin.cap = (long)cache.Capacity();
      for (int i = 0; i < NID; i++) fin.held[i] = cache.HasAsset(kIds[i]) != nullptr;
      if (fin.size > fin.cap) violation("over-capacity", "final Size()=%ld > Capacity()=%ld", fin.size, fin.cap);
      std::vector<HOp> all;
      for (auto& v : hist) for (auto& h : v) all.push_back(h);
      std::set<std::pair<unsigned, uint64_t>> memo;
      uint64_t nodes = 0;
      if (!lin_dfs(all, 0, model, fin, memo, nodes)) {
        std::string hs;
        for (auto& h : all) { snprintf(b, sizeof b, " T%d[%llu,%llu]%s=(%ld,%ld)", h.thread + 1, (unsigned long long)h.inv, (unsigned long long)h.ret, op_str(h.op).c_str(), h.res.a, h.res.b); hs += b; }
        violation("not-linearizable", "no sequential order of the %zu concurrent cache operations explains the observed results and final state (size %ld):%s", all.size(), fin.size, hs.substr(0, 700).c_str());
      }
      run_end();
      probe("concurrent_histories");
      probe("linearizability_search_nodes", nodes);
      bool overlap = false;
      for (auto& x : all) for (auto& y : all) if (x.thread != y.thread && x.inv < y.ret && y.inv < x.ret) overlap = true;
      if (overlap) probe("histories_with_overlapping_operations");
    }
  }
  g_agg.print(stdout);
  return 0;
}
