// C21 (threaded-compile scenario): allocation failure during the multithreaded asset compile never causes undefined behaviour.
// The compiler's asset pool runs on the simulated scheduler (sim variant), so "the k-th call of mju_user_malloc" is one exactly
// repeatable execution even though the calls come from several compiler threads.  Per case: a generated spec with colliding
// meshes (hulls are needed, so mjCMesh::MakeGraph allocates on worker threads), textures and muscles; a dry run counts the N
// allocator calls of mj_compile(usethread=1) under the case's schedule; then for every k (all k for N <= maxexec, else a seeded
// sample) the k-th call returns NULL in a fresh run with the same schedule.
// Oracle: no signal, no mju_error delivered to the user handler on a worker thread (nothing can unwind there), no free of an
// unknown or already freed block, no deadlock of the pool; mj_compile returns NULL; afterwards a fault-free compile in the same
// process gives the baseline bytes.  Leaks are counted, not judged (the leak shapes of mju_malloc are C21's recorded findings).

#include "simdrv.h"
#include "natdrv.h"
#include "assetgen.h"

using nd::Rng;

// tracking allocator with quarantine (a second free is detected, not executed).  Like the C library's malloc it is atomic with respect
// to the scheduler: everything it calls is excluded from the coverage instrumentation (no std:: containers here - their template
// code would be instrumented and a preemption in the middle of an insert lets another simulated thread see a half-updated table).
#define NOSCHED __attribute__((no_sanitize("coverage"), noinline))
struct Slot { void* p; size_t n; int state; };            // state: 0 empty, 1 live, 2 freed (quarantined)
static const size_t kSlots = (size_t)1 << 21;
static Slot* g_tab;
static long g_nlive = 0;
static long g_calls = 0, g_failat = -1, g_fail_tid = -1;
// backing store of the tracked allocator: a region of its own (reserved right after the scheduler's fixed heap, so at the same address in every
// process), handed out by a bump pointer and rewound at the start of every case - blocks of earlier cases are all dead by then, and without
// the rewind a few dozen cases of faulted compiles would use up any region (which once sent later blocks to the C library and ended a shard)
static char* t_base = nullptr; static size_t t_top = 0; static const size_t kTRegion = (size_t)64 << 30;
NOSCHED static void* t_grab(size_t n) {
  n = (n + 63) & ~(size_t)63;
  if (!t_base || t_top + n > kTRegion) { fprintf(stderr, "harness: tracked allocator region exhausted\n"); _exit(2); }
  void* p = t_base + t_top; t_top += n; return p;
}
static void t_rewind() {
  if (t_base && t_top) madvise(t_base, t_top, MADV_DONTNEED);
  t_top = 0;
  if (g_tab) memset(g_tab, 0, kSlots * sizeof(Slot));
  g_nlive = 0;
}
NOSCHED static Slot* find_slot(void* p) {
  size_t h = ((uintptr_t)p >> 6) * 0x9E3779B97F4A7C15ULL >> 43;
  for (size_t i = 0; i < kSlots; i++) { Slot* s = &g_tab[(h + i) & (kSlots - 1)]; if (s->state == 0 || s->p == p) return s; }
  return nullptr;
}
NOSCHED static void* t_malloc(size_t n) {
  long k = ++g_calls;
  if (k == g_failat) { g_fail_tid = vsim::active() ? vsim::self() : 0; return nullptr; }
  void* p = t_grab(n ? n : 1);   // own fixed-address region, never recycled within a case (a second free of the same pointer stays recognisable)
  if (p) { Slot* s = find_slot(p); if (s) { s->p = p; s->n = n; s->state = 1; g_nlive++; } }
  return p;
}
NOSCHED static void t_free(void* p) {
  if (!p) return;                                  // free(NULL) is legal
  Slot* s = find_slot(p);
  if (!s || s->state != 1) {
    char b[260]; snprintf(b, sizeof b, "mju_free of a block that is not live (%s; allocator call count %ld, failing call %ld, thread %d)", s && s->state == 2 ? "already freed: double free" : "never allocated", g_calls, g_failat, vsim::active() ? vsim::self() : 0);
    vsim::fail("bad-free", b);
  }
  s->state = 2;                                    // quarantined: never handed back, so a later free of the same pointer is recognised
  g_nlive--;
}

static void on_error(const char* msg) {
  snprintf(nd::g_lasterr, sizeof nd::g_lasterr, "%s", msg);
  if (vsim::active() && vsim::self() != 0) sd::violation("error-on-worker-thread", "mju_error reached the user handler on compiler thread %d (a handler cannot unwind from there): %s", vsim::self(), msg);
  if (nd::g_jmp) longjmp(*nd::g_jmp, 1);
  sd::violation("unexpected-error", "mju_error outside a guarded call: %s", msg);
}

static std::vector<char> model_bytes(const mjModel* m) {
  std::vector<char> b((size_t)mj_sizeModel(m));
  mj_saveModel(m, nullptr, b.data(), (int)b.size());
  return b;
}

int main(int argc, char** argv) {
  sd::no_aslr(argv);
  { void* q = mmap(nullptr, kTRegion, PROT_READ | PROT_WRITE, MAP_PRIVATE | MAP_ANONYMOUS | MAP_NORESERVE, -1, 0); if (q != MAP_FAILED) t_base = (char*)q; }
  sd::g_property = "C21"; nd::g_property = "C21";
  sd::parse_args(argc, argv);
  nd::parse_args(argc, argv);
  sd::install_handlers();
  sd::engine_warmup();
  g_tab = (Slot*)calloc(kSlots, sizeof(Slot));
  mju_user_malloc = t_malloc; mju_user_free = t_free;
  mju_user_error = on_error; mju_user_warning = nd::on_warning;
  setvbuf(stdout, 0, _IOLBF, 0);
  long maxexec = sd::opt_long("maxexec", 40);
  {
    // lazy global initialisation of the compiler must not depend on which run touches it first (cf. c33.cc)
    Rng rw(12345); int a, b, c; std::string wx = ag::gen_xml(rw, &a, &b, &c, {}, true);
    vsim::Config c0; c0.seed = 1; c0.policy = vsim::P_STICKY; c0.sticky_ppm = 0; c0.hw_concurrency = 4;
    vsim::begin(c0);
    char werr[500] = "";
    mjSpec* ws = mj_parseXMLString(wx.c_str(), nullptr, werr, sizeof werr);
    if (ws) { ws->compiler.usethread = 1; mjModel* wm = mj_compile(ws, nullptr); if (wm) mj_deleteModel(wm); mj_deleteSpec(ws); }
    vsim::end();
  }
  uint64_t est_len = 2000;
  for (uint64_t s = sd::g_args.seed0; s < sd::g_args.seed0 + sd::g_args.n; s++) {
    Rng r(s);
    t_rewind();
    int nmesh = 0, ntex = 0, nmuscle = 0;
    bool fuse = false;
    std::string xml = ag::gen_xml(r, &nmesh, &ntex, &nmuscle, nd::g_args.mdrop, true, &fuse);
    sd::Rng r2(s ^ 0x5DEECE66DULL);
    vsim::Config cfg = sd::swarm(r2, {0, 0, 100, 1000}, {}, est_len);
    cfg.opp_cap = 2000000000ULL;
    sd::apply_overrides(cfg);
    char err[1000] = "";
    // ---- baseline (fault-free) run: bytes and number of allocator calls of mj_compile
    std::vector<char> ref; long N = 0;
    {
      sd::g_scenario = "baseline";
      vsim::begin(cfg);
      mjSpec* sp = mj_parseXMLString(xml.c_str(), nullptr, err, sizeof err);
      if (!sp) { fprintf(stderr, "harness: generated XML does not parse: %s\n", err); return 2; }
      sp->compiler.usethread = 1;
      g_failat = -1; g_calls = 0;
      mjModel* m = mj_compile(sp, nullptr);
      N = g_calls;
      if (m) { ref = model_bytes(m); mj_deleteModel(m); }
      mj_deleteSpec(sp);
      vsim::end();
      if (ref.empty()) { sd::probe("rejected_models"); continue; }
    }
    std::vector<long> ks;
    if (N <= maxexec) for (long k = 1; k <= N; k++) ks.push_back(k);
    else { std::set<long> u; u.insert(1); u.insert(N); while ((long)u.size() < maxexec) u.insert(1 + r.below((int)N)); ks.assign(u.begin(), u.end()); }
    int on_worker = 0;
    for (long k : ks) {
      char sc[160]; snprintf(sc, sizeof sc, "meshes=%d textures=%d muscles=%d allocations=%ld fail=%ld", nmesh, ntex, nmuscle, N, k);
      sd::g_scenario = sc;
      long live0 = g_nlive;
      sd::run_begin(s, cfg);
      mjSpec* sp = mj_parseXMLString(xml.c_str(), nullptr, err, sizeof err);
      sp->compiler.usethread = 1;
      g_calls = 0; g_failat = k; g_fail_tid = -1;
      mjModel* m = nullptr;
      bool raised = ND_GUARD({ m = mj_compile(sp, nullptr); });
      g_failat = -1;
      if (g_fail_tid < 0) sd::violation("nondeterministic", "allocation %ld of %ld was not reached in the faulted run (same schedule as the baseline)", k, N);
      if (raised) sd::violation("error-escaped-compile", "mj_compile let mju_error through to the user handler on the main thread: %s", nd::g_lasterr);
      if (m) sd::violation("fault-swallowed", "allocation %ld failed (on thread %ld) but mj_compile returned a model", k, g_fail_tid);
      if (!mjs_getError(sp) || !mjs_getError(sp)[0]) sd::violation("no-error-message", "mj_compile returned NULL after a failed allocation without an error message");
      // a deep copy of the spec whose compile has just failed is a legal next step (no fault is injected any more): it must not crash on what the
      // failed compile left half-built in the spec's assets, and it compiles to the baseline bytes
      if (!fuse) {
        mjSpec* cp = mj_copySpec(sp);
        if (!cp) sd::violation("no-recovery", "mj_copySpec of the spec whose compile failed (allocation %ld) returned NULL", k);
        cp->compiler.usethread = 1;
        mjModel* mcp = mj_compile(cp, nullptr);
        if (!mcp) sd::violation("no-recovery", "the copy of the spec whose compile failed (allocation %ld) does not compile: %s", k, mjs_getError(cp));
        std::vector<char> bc = model_bytes(mcp);
        if (bc.size() != ref.size() || memcmp(bc.data(), ref.data(), ref.size())) sd::violation("no-recovery", "the copy of the spec whose compile failed (allocation %ld) compiles to a different model", k);
        mj_deleteModel(mcp); mj_deleteSpec(cp);
        sd::probe("copies_of_a_spec_after_its_failed_compile");
      }
      // recovery: the same spec compiles fault-free, in the same process, to the baseline bytes
      // (with fusestatic a compile leaves the spec changed - C33's recorded finding - so there the recovery compile parses the XML again)
      if (fuse) { mj_deleteSpec(sp); sp = mj_parseXMLString(xml.c_str(), nullptr, err, sizeof err); sp->compiler.usethread = 1; sd::probe("recovery_from_reparsed_spec_(fusestatic)"); }
      mjModel* m2 = mj_compile(sp, nullptr);
      if (!m2) sd::violation("no-recovery", "after a failed allocation (call %ld, thread %ld) the spec no longer compiles: %s", k, g_fail_tid, mjs_getError(sp));
      std::vector<char> b2 = model_bytes(m2);
      if (b2.size() != ref.size() || memcmp(b2.data(), ref.data(), ref.size())) sd::violation("no-recovery", "after a failed allocation (call %ld) the fault-free compile gives a different model", k);
      mj_deleteModel(m2);
      mj_deleteSpec(sp);
      sd::run_end();
      if (g_fail_tid > 0) { on_worker++; sd::probe("faults_on_worker_threads"); } else sd::probe("faults_on_main_thread");
      if (g_nlive > live0) sd::probe("faulted_runs_that_left_blocks");   // leaks: counted, not judged here
      sd::probe("faulted_executions");
      est_len = (est_len * 7 + vsim::stats().opportunities + 8) / 8;
    }
    if (on_worker) sd::probe("cases_with_fault_on_worker");
    sd::probe("cases");
  }
  sd::g_agg.print(stdout);
  return 0;
}
