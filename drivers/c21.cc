// C21: allocation failure never causes undefined behaviour (fault enumeration).
// Seam: the public mju_user_malloc / mju_user_free hooks.  For every k the k-th allocation of a scenario
// returns NULL (exhaustive single faults), then seeded multi-fault runs.  The allocator keeps the live-block
// table, so double frees, frees of unknown blocks and leaks are decided exactly; ASan watches the rest.
#include <unordered_map>

#include "hist.h"
#include "engine/engine_thread.h"

using namespace nd;

// ------------------------------------------------------------------ fault-injecting allocator
struct Blk { size_t size; long serial; const char* stage; };
static std::unordered_map<void*, Blk> g_live;
static long g_ncall = 0, g_fail_at = -1, g_nfailed = 0;
static double g_fail_p = 0; static long g_warm = 0;
static uint64_t g_frng = 1;
static const char* g_stage = "?";
static const char* g_fail_stage = nullptr;
static size_t g_fail_size = 0;
static bool g_bad_free = false; static char g_bad_free_msg[160];
static void* f_malloc(size_t sz) {
  g_ncall++;
  bool fail = g_ncall == g_fail_at;
  if (g_fail_p > 0 && g_ncall > g_warm) { g_frng ^= g_frng << 13; g_frng ^= g_frng >> 7; g_frng ^= g_frng << 17; if ((double)(g_frng >> 11) / 9007199254740992.0 < g_fail_p) fail = true; }
  if (fail) { g_nfailed++; if (!g_fail_stage) { g_fail_stage = g_stage; g_fail_size = sz; } return nullptr; }
  void* p = aligned_alloc(64, (sz + 63) & ~(size_t)63);
  if (p) g_live[p] = Blk{sz, g_ncall, g_stage};
  return p;
}
static void f_free(void* p) {
  auto it = g_live.find(p);
  if (it == g_live.end()) { if (!g_bad_free) { g_bad_free = true; snprintf(g_bad_free_msg, sizeof g_bad_free_msg, "free of a block that is not live (double free or foreign pointer) during %s", g_stage); } return; }
  g_live.erase(it);
  free(p);
}

// ------------------------------------------------------------------ scenarios
struct Handles { mjSpec* s = nullptr; mjSpec* s2 = nullptr; mjModel* m = nullptr; mjModel* m2 = nullptr; mjModel* m3 = nullptr; mjData* d = nullptr; mjData* d2 = nullptr; std::vector<char> bytes; std::string xmlout; };
static Handles H;
static std::set<size_t> g_mbufs, g_dbufs;   // buffer sizes of every model / data the scenario has produced in this case (a scenario that edits its spec has several)
static void learn() { if (H.m) g_mbufs.insert((size_t)H.m->nbuffer); if (H.d) g_dbufs.insert((size_t)H.d->nbuffer); }
#define STAGE(name) g_stage = name
static int scenario(int which, const std::string& xml) {
  char err[500] = "";
  STAGE("mj_parseXMLString"); H.s = mj_parseXMLString(xml.c_str(), nullptr, err, sizeof err); if (!H.s) return 1;
  STAGE("mj_compile"); H.m = mj_compile(H.s, nullptr); if (!H.m) return 2;
  if (which == 0) {
    STAGE("mj_makeData"); H.d = mj_makeData(H.m); if (!H.d) return 3;
    STAGE("mj_step"); for (int i = 0; i < 3; i++) mj_step(H.m, H.d);
    STAGE("mj_copyData"); H.d2 = mj_copyData(nullptr, H.m, H.d); if (!H.d2) return 4;
    STAGE("mj_copyModel"); H.m2 = mj_copyModel(nullptr, H.m); if (!H.m2) return 5;
    STAGE("mj_saveModel"); { mjtSize sz = mj_sizeModel(H.m); H.bytes.assign((size_t)sz, 0); mj_saveModel(H.m, nullptr, H.bytes.data(), (int)sz); }
    STAGE("mj_loadModelBuffer"); H.m3 = mj_loadModelBuffer(H.bytes.data(), (int)H.bytes.size()); if (!H.m3) return 6;
  } else if (which == 1) {
    STAGE("mj_makeData"); H.d = mj_makeData(H.m); if (!H.d) return 3;
    STAGE("mj_recompile"); if (mj_recompile(H.s, nullptr, H.m, H.d) != 0) { H.m = nullptr; H.d = nullptr; return 7; }   // documented: on failure the given model and data are deleted
    // an edit that changes the model's sizes (buffer length, nq, nbody), then the in-place recompile again
    STAGE("mjs_edit");
    { mjsBody* w = mjs_findBody(H.s, "world");
      if (w) { mjsBody* nb = mjs_addBody(w, nullptr); nb->pos[2] = 2.5; mjsJoint* nj = mjs_addJoint(nb, nullptr); nj->type = mjJNT_HINGE; nj->axis[0] = 0; nj->axis[1] = 1; nj->axis[2] = 0;
               mjsGeom* ng = mjs_addGeom(nb, nullptr); ng->type = mjGEOM_SPHERE; ng->size[0] = 0.04; mjsGeom* wg = mjs_addGeom(w, nullptr); wg->type = mjGEOM_BOX; wg->size[0] = wg->size[1] = wg->size[2] = 0.03; wg->pos[2] = 3; } }
    learn();
    STAGE("mj_recompile(edited)"); if (mj_recompile(H.s, nullptr, H.m, H.d) != 0) { H.m = nullptr; H.d = nullptr; return 7; }
    learn();
    STAGE("mj_copySpec"); H.s2 = mj_copySpec(H.s); if (!H.s2) return 8;
    STAGE("mj_saveXMLString"); { H.xmlout.assign(200000, 0); if (mj_saveXMLString(H.s, H.xmlout.data(), (int)H.xmlout.size(), err, sizeof err) != 0) return 9; }
    STAGE("mj_saveModel"); { mjtSize sz = mj_sizeModel(H.m); H.bytes.assign((size_t)sz, 0); mj_saveModel(H.m, nullptr, H.bytes.data(), (int)sz); }
  } else {
    STAGE("mj_makeData"); H.d = mj_makeData(H.m); if (!H.d) return 3;
    STAGE("mj_step"); mj_step(H.m, H.d);
    STAGE("mj_resetDataKeyframe"); mj_resetDataKeyframe(H.m, H.d, 0);
    STAGE("mj_setKeyframe"); if (H.m->nkey) mj_setKeyframe(H.m, H.d, 0);
    STAGE("mju_threadpool"); mju_threadpool(H.d, 2); STAGE("mj_step(pool)"); mj_step(H.m, H.d); STAGE("mju_threadpool(0)"); mju_threadpool(H.d, 0);
    STAGE("mj_copyData(into)"); { H.d2 = mj_makeData(H.m); if (!H.d2) return 4; mj_copyData(H.d2, H.m, H.d); }
    STAGE("mj_saveModel"); { mjtSize sz = mj_sizeModel(H.m); H.bytes.assign((size_t)sz, 0); mj_saveModel(H.m, nullptr, H.bytes.data(), (int)sz); }
  }
  return 0;
}
static void cleanup() {
  STAGE("cleanup");
  if (H.d2) mu::dispose(H.d2);
  if (H.d) mu::dispose(H.d);
  if (H.m3) mj_deleteModel(H.m3);
  if (H.m2) mj_deleteModel(H.m2);
  if (H.m) mj_deleteModel(H.m);
  if (H.s2) mj_deleteSpec(H.s2);
  if (H.s) mj_deleteSpec(H.s);
  H = Handles();
}
static std::string kind_of(size_t sz, const mjModel* refm, const mjData* refd) {
  if (sz == sizeof(mjModel)) return "mjModel-struct";
  if (sz == sizeof(mjData)) return "mjData-struct";
  if ((refm && sz == (size_t)refm->nbuffer) || g_mbufs.count(sz)) return "mjModel-buffer";
  if ((refd && sz == (size_t)refd->nbuffer) || g_dbufs.count(sz)) return "mjData-buffer";
  if (refd && sz == (size_t)refd->narena) return "mjData-arena";
  return "other";
}

int main(int argc, char** argv) {
  setup(argc, argv, "C21");
  mju_user_malloc = f_malloc; mju_user_free = f_free;
  for (uint64_t s = g_args.seed0; s < g_args.seed0 + g_args.n; s++) {
    begin_case(s);
    ND_CASE_GUARD();
    Rng r(s);
    mg::GenOpts go; go.min_trees = 1; go.max_trees = 3; go.keyframes = true; go.memory = "200K";
    mg::Model gm = mg::generate(r, go, g_args.mdrop);
    int which = r.below(3);
    g_blob = gm.xml + "\n";
    const char* scn = which == 0 ? "S1:load/makeData/step/copy/save/loadBuffer" : which == 1 ? "S2:compile/recompile/copySpec/saveXML" : "S3:reset/keyframe/threadpool/copyInto";
    // ---- dry run: count allocations, get baseline bytes and reference sizes
    g_live.clear(); g_ncall = 0; g_fail_at = -1; g_fail_p = 0; g_nfailed = 0; g_bad_free = false;
    g_mbufs.clear(); g_dbufs.clear();
    int rc = -1;
    bool raised = ND_GUARD({ rc = scenario(which, gm.xml); });
    if (raised || rc != 0) { ND_GUARD({ cleanup(); }); count("scenario_skipped_baseline_failed"); end_case(); continue; }
    std::vector<char> baseline = H.bytes;
    size_t ref_mbuf = H.m ? (size_t)H.m->nbuffer : 0, ref_dbuf = H.d ? (size_t)H.d->nbuffer : 0, ref_arena = H.d ? (size_t)H.d->narena : 0;
    cleanup();
    long N = g_ncall;
    if (!g_live.empty()) violation("leak-without-fault", "%s: %zu blocks still live after a fault-free scenario and its cleanup", scn, g_live.size());
    if (g_bad_free) violation("bad-free", "%s (no fault injected): %s", scn, g_bad_free_msg);
    count("allocator_calls_per_scenario", N);
    uint64_t sig = fnv_str(gm.summary, which);
    // ---- faulted runs: every single k, then seeded multi-fault
    long nmulti = opt_long("multi", 12);
    for (long k = 1; k <= N + nmulti; k++) {
      g_live.clear(); g_ncall = 0; g_nfailed = 0; g_bad_free = false; g_fail_stage = nullptr; g_fail_size = 0;
      if (k <= N) { g_fail_at = k; g_fail_p = 0; }
      else { g_fail_at = -1; g_fail_p = r.chance(0.5) ? 0.05 : 0.3; g_warm = r.below((int)N); g_frng = r.next() | 1; }
      char sc[160]; snprintf(sc, sizeof sc, "%s %s fault=%s%ld of %ld", scn, gm.summary.c_str(), k <= N ? "k=" : "multi#", k <= N ? k : k - N, N);
      g_scenario = sc;
      rc = -1;
      raised = ND_GUARD({ rc = scenario(which, gm.xml); });
      std::string fstage = g_fail_stage ? g_fail_stage : "none";
      g_fail_at = -1; g_fail_p = 0;                       // no more faults: cleanup and recovery run fault-free
      bool craised = ND_GUARD({ cleanup(); });
      if (craised) violation("cleanup-error", "%s: deleting the handles after a failed allocation in %s raised: %s", scn, fstage.c_str(), g_lasterr);
      count("faulted_executions");
      if (g_nfailed) { count(raised ? "surfaced_through_error_handler" : rc ? "surfaced_as_null_or_error_return" : "absorbed_without_effect"); }
      if (g_bad_free) violation("bad-free", "%s: allocation failure in %s, then %s", scn, fstage.c_str(), g_bad_free_msg);
      if (!g_live.empty()) {
        // leak: identified by what a user observes - the API call in which the allocation failed and the kind of object left behind
        std::set<std::string> kinds;
        mjModel fm{}; fm.nbuffer = (mjtSize)ref_mbuf; mjData fd{}; fd.nbuffer = (mjtSize)ref_dbuf; fd.narena = (mjtSize)ref_arena;
        size_t total = 0;
        for (auto& [p, b] : g_live) { kinds.insert(kind_of(b.size, &fm, &fd)); total += b.size; }
        std::string ks; for (auto& x : kinds) ks += (ks.empty() ? "" : "+") + x;
        std::string cls = "leak:" + ks + ":" + fstage;
        size_t nl = g_live.size();
        for (auto& [p, b] : g_live) free(p);
        g_live.clear();
        violation_or_continue(cls.c_str(), "%s: the allocation of %zu bytes failed in %s (%s) and %zu block(s) / %zu bytes of kind %s were never freed", scn, g_fail_size, fstage.c_str(),
                  raised ? "error handler invoked" : "error return", nl, total, ks.c_str());
      }
      // ---- recovery: the same scenario without faults, in the same process, gives byte-identical model bytes
      if (g_nfailed) {
        g_ncall = 0;
        rc = -1;
        raised = ND_GUARD({ rc = scenario(which, gm.xml); });
        bool same = !raised && rc == 0 && H.bytes.size() == baseline.size() && !memcmp(H.bytes.data(), baseline.data(), baseline.size());
        ND_GUARD({ cleanup(); });
        if (!same) violation("no-recovery", "%s: after an allocation failure in %s the fault-free scenario %s", scn, fstage.c_str(), raised ? g_lasterr : rc ? "returned an error" : "produced different model bytes");
        if (!g_live.empty()) { g_live.clear(); violation("leak-after-recovery", "%s: blocks left after the fault-free re-run that followed a failure in %s", scn, fstage.c_str()); }
        count("recovery_runs");
      }
      sig = fnv(&k, sizeof k, sig);
    }
    g_scenario = std::string(scn) + " " + gm.summary;
    signature(sig);
    { char b[200]; snprintf(b, sizeof b, "%s %s: %ld allocator calls, each failed once, +%ld multi-fault runs", scn, gm.summary.c_str(), N, nmulti); sample(b); }
    count(which == 0 ? "scenario_S1" : which == 1 ? "scenario_S2" : "scenario_S3");
    end_case();
  }
  print_summary();
  return 0;
}
