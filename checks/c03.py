"""C03: thread-pool dispatch runs each task exactly once (E1: seeded schedule search + TSan-in-the-loop)."""
import e1

RULE = ("one case = one seed = (history of <=8 create/resize/dispatch/destroy ops on one mjData, <=4 workers, <=12 tasks, "
        "seeded task bodies) x (scheduling policy random/sticky/PCT/starve, basic-block preemption rate 0/2%/30%, spurious "
        "wake-ups on/off); a case is non-trivial when >=2 simulated threads were runnable at once and >=1 context switch "
        "happened; distinct = distinct hash of the full scheduling trace (thread, event kind, memory order, switch targets)")
ASSUME = [
    "the simulator serialises threads: executions are sequentially consistent; weak-memory effects are covered only through the TSan-in-the-loop stage (a memory-order mistake is a data race in the C++ model)",
    "std::atomic/std::thread are re-bound by a force-included prelude; engine_thread.cc itself is compiled unmodified from /repo's working tree",
    "sampled, not exhaustive: seeded search over schedules",
]


def run(tier):
    if tier == "quick":
        plan = [dict(variant="sim", runs=40000, label="sim", timeout=150), dict(variant="simtsan", runs=4000, label="simtsan", timeout=150)]
    else:
        plan = [dict(variant="sim", runs=4000000, label="sim", timeout=3000), dict(variant="simtsan", runs=400000, label="simtsan", timeout=3000)]
    return e1.run_e1("C03", tier, "c03.cc", plan, nops=8, rule=RULE, assumptions=ASSUME, design_ref="3/C03")
