#!/usr/bin/env python3
"""Single entry point:  run.py <PROPERTY> --tier quick|thorough   |   run.py --replay <file>   |   run.py --selftest"""
import importlib
import json
import os
import sys

HERE = os.path.dirname(os.path.abspath(__file__))
sys.path.insert(0, HERE)
import common as C  # noqa: E402


def main(argv):
    if len(argv) >= 2 and argv[0] == "--replay":
        import replay
        return replay.replay(argv[1])
    if argv and argv[0] == "--selftest":
        import selftest
        return selftest.run(argv[1:])
    if not argv:
        print(__doc__)
        return 2
    prop = argv[0].upper()
    tier = os.environ.get("VERIF_TIER", "quick")
    if "--tier" in argv:
        tier = argv[argv.index("--tier") + 1]
    if tier not in ("quick", "thorough"):
        tier = "quick"
    try:
        mod = importlib.import_module(prop.lower())
    except ImportError as e:
        print("no check for %s (%s)" % (prop, e))
        return 2
    try:
        return mod.run(tier)
    except C.HarnessError as e:
        print("HARNESS FAILURE (not a verdict): %s" % e)
        return 2


if __name__ == "__main__":
    sys.exit(main(sys.argv[1:]))
