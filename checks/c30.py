"""C30: numerical blow-ups are contained (E3: faults injected into a running simulation at seeded instants)."""
import nat

RULE = ("one case = one seed = (generated or repo model, autoreset on or off) x (history of 10-60 steps with random controls) x (1-3 injected "
        "faults: value from {NaN, +-Inf, +-1.0001e10, +-1e300, 9.9e9, -0.0, denormal, 1e150} written into one element of qpos / qvel / act / "
        "ctrl / qfrc_applied / xfrc_applied / mocap_pos at a seeded step); with autoreset on the state is finite after every step; a bad value "
        "entering the position / velocity check raises the matching warning counter; after an automatic reset the state equals one step out of "
        "the initial state (the bad value was replaced, not propagated); non-trivial = at least one fault landed; distinct = hash of (model, fault list)")
ASSUME = [
    "'state' is qpos, qvel, act and time (the property's observation list); a NaN that the user writes into mocap_pos or ctrl and that influences nothing is not 'propagated'",
    "the bad-value predicate is re-stated in the harness (NaN or |x| > 1e10), not taken from the engine",
    "with autoreset off only the warning-counter clause is asserted",
]


def run(tier):
    n = 8000 if tier == "quick" else 800000
    plan = [dict(variant="plain", runs=n, label="plain", timeout=300 if tier == "quick" else 3400)]
    return nat.run_native("C30", tier, "c30.cc", plan, "exploration", RULE, ASSUME, nops=3, nmodel=80)
