"""C39: virtual file system operations have set semantics (E3: seeded histories against a dictionary model)."""
import nat

RULE = ("one case = one seed = history of 5-40 operations {add buffer, add real file (present / missing / empty / rewritten), delete, "
        "contains-buffer, contains-file, open+read+close, delete-all} over 6 distinct lower-case names ('plain': presence, repeated-name code, "
        "exact bytes, delete-absent failure all asserted) or over 8 names in 3 alias classes differing only in case or path separator ('alias': "
        "only documented return codes, read-your-own-add on a previously empty alias class, no crash), or over 8 buffer paths with directories of which several share a base name ('dirs': exact-path map semantics incl. a full presence sweep after every operation; deletes only of exactly-present paths or of paths whose base name is present nowhere); non-trivial = every history; distinct = "
        "hash of the operation sequence")
ASSUME = [
    "real files live in a scratch directory created by the driver; names not present in the VFS do not exist relative to the working directory",
    "the result of adding a file that cannot be read is not asserted (the statement is silent; observed: returns 0 and mounts an empty entry although mujoco.h documents -1)",
    "which spellings alias is not part of the property: observed and recorded in DESIGN.md, not asserted (files are keyed by lower-cased base name, buffers by exact name)",
]


def run(tier):
    n = 30000 if tier == "quick" else 3000000
    plan = [dict(variant="plain", runs=n, label="plain", args=["--mode", "plain"], timeout=300 if tier == "quick" else 3400),
            dict(variant="plain", runs=n, label="alias", args=["--mode", "alias"], timeout=300 if tier == "quick" else 3400),
            dict(variant="plain", runs=n, label="dirs", args=["--mode", "dirs"], timeout=300 if tier == "quick" else 3400)]
    return nat.run_native("C39", tier, "c39.cc", plan, "exploration", RULE, ASSUME, nops=40, nmodel=0, use_corpus=False)
