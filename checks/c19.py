"""C19: internal stack and arena allocation is memory-safe (sequential histories vs a shadow model, plain + ASan; concurrent
reservations under the real mju_dispatch on the simulated scheduler, block + load/store preemption, TSan-in-the-loop;
stack discipline of public engine calls)."""
import json
import os
import time

import common as C
import e1
import nat

RULE_SEQ = ("sequential: one case = one seed = (arena size from 8 B to 64 KiB) x (history of 4-60 operations: mj_markStack, "
            "mj_stackAllocByte with alignment 1..256 / mj_stackAllocNum / mj_stackAllocInt, mj_freeStack, mj_arenaAllocByte, arena rewind, "
            "thread-locked segments as mju_dispatch brackets them; sizes small, around what is left, zero, and absurd: SIZE_MAX-k, 2^63, the "
            "overflow guards) against a shadow model of live blocks and frames: alignment, bounds, disjointness, byte patterns verified when a "
            "block dies, exact restoration of pstack/pbase by mj_freeStack, exhaustion = mju_error (stack) or NULL (arena) with unchanged state "
            "and only when the request really does not fit; api: seeded sequences of ~25 public engine calls (also from inside a caller's open "
            "frame) must return with the stack pointer they were entered with")
RULE_CONC = ("concurrent: one case = one seed = (pool of 1-4 simulated workers) x (1-3 dispatches of 2-10 tasks, each making 0-5 reservations of "
             "1 B..20 KB with alignment 1..128 through mj_stackAllocByte/Num/Int, optional mark/free inside the task, caller frames alive across "
             "the dispatch) x (scheduling policy, basic-block preemption up to 30%, load/store preemption up to 20% in the simls build); all "
             "reservations of a dispatch must be aligned, inside the free region, pairwise disjoint and unmodified until the dispatch returns, "
             "which must restore pstack/pbase; distinct = hash of the scheduling trace (concurrent) / of (arena size, seed) (sequential)")
ASSUME = [
    "mju_error is fatal for an instance once the stack is thread-locked (a failed reservation is not rolled back; MuJoCo's contract is that error handlers do not return): a locked segment that hits exhaustion ends the case",
    "mj_resetData and the automatic reset inside mj_step clear the whole stack by design: calls in which a reset fired are not held to 'returns with the stack pointer it started with' when the caller had a frame open",
    "an exhaustion error/NULL is required to be justified: the request plus worst-case alignment padding and ASan red zones (80 bytes) must exceed the free space",
    "concurrent part: sequentially consistent execution; the relaxed fetch-add is checked for atomicity by load/store-granular preemption (simls) and for races by TSan-in-the-loop",
]


def run(tier):
    t0 = time.time()
    q = tier == "quick"
    nat_plan = [
        dict(variant="plain", runs=60000 if q else 6000000, label="seq-plain", args=["--mode", "seq"], timeout=250 if q else 3400),
        dict(variant="asan", runs=12000 if q else 1200000, label="seq-asan", args=["--mode", "seq"], timeout=250 if q else 3400),
        dict(variant="plain", runs=4000 if q else 400000, label="api-plain", args=["--mode", "api"], timeout=250 if q else 3400),
        dict(variant="asan", runs=800 if q else 80000, label="api-asan", args=["--mode", "api"], timeout=250 if q else 3400),
    ]
    rc1 = nat.run_native("C19", tier, "c19s.cc", nat_plan, "exploration", RULE_SEQ, ASSUME, nops=60, nmodel=0, engine="histsim")
    ev1 = _load()
    e1_plan = [
        dict(variant="sim", runs=30000 if q else 3000000, label="conc-sim", timeout=250 if q else 3400),
        dict(variant="simls", runs=30000 if q else 3000000, label="conc-simls", timeout=250 if q else 3400),
        dict(variant="simtsan", runs=6000 if q else 600000, label="conc-simtsan", timeout=250 if q else 3400),
    ]
    rc2 = e1.run_e1("C19", tier, "c19.cc", e1_plan, nops=3, rule=RULE_CONC, assumptions=ASSUME, design_ref="4/C19")
    ev2 = _load()
    # one evidence file for the property: the concurrent record plus the sequential stages
    if ev1 and ev2:
        ev = ev2
        cov = ev["coverage"]
        cov["rule"] = RULE_SEQ + " || " + RULE_CONC
        cov["evaluations"] = int(cov.get("evaluations", 0)) + int(ev1["coverage"].get("evaluations", 0))
        cov["distinct_nontrivial"] = int(cov.get("distinct_nontrivial", 0)) + int(ev1["coverage"].get("distinct_nontrivial", 0))
        cov["stages"] = ev1["coverage"].get("stages", []) + cov.get("stages", [])
        cov["samples"] = (ev1["coverage"].get("samples", []) + cov.get("samples", []))[:3]
        fc = dict(ev1["coverage"].get("failure_classes_seen", {}))
        fc.update(cov.get("failure_classes_seen", {}))
        cov["failure_classes_seen"] = fc
        ev["violations"] = int(ev1.get("violations", 0)) + int(ev2.get("violations", 0))
        ev["wall_s"] = round(time.time() - t0, 2)
        cov["runs_per_hour"] = int(cov["evaluations"] / max(ev["wall_s"], 1e-9) * 3600)
        hp = (ev1.get("harness_problems") or []) + (ev2.get("harness_problems") or [])
        if hp:
            ev["harness_problems"] = hp
        with open(os.path.join(C.EVIDENCE, "C19.json"), "w") as f:
            json.dump(ev, f, indent=1)
    if 1 in (rc1, rc2):
        return 1
    if 2 in (rc1, rc2):
        return 2
    return 0


def _load():
    try:
        with open(os.path.join(C.EVIDENCE, "C19.json")) as f:
            return json.load(f)
    except (OSError, ValueError):
        return None
