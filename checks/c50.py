"""C50: visualization scene construction is bounded and faithful (E2: capacity-fault enumeration on mjv_updateScene, ASan)."""
import nat

RULE = ("one case = one seed = (generated or repo model, incl. flex and mesh models, after 0-40 steps with random controls and an applied force) x "
        "(seeded mjvOption: every mjVIS_* flag, group masks, label and frame modes, BVH depth; seeded category mask, camera mode, optional "
        "perturbation object) -> one uncapped reference scene with N geoms, then a FRESH exact-size scene for EVERY capacity 0..N (N+1 <= "
        "maxexec; else the first and last 40 plus a seeded sample) and two capacities above N: ngeom <= maxgeom, no mju_error, status != 0 exactly "
        "when N > maxgeom, a full-capacity rebuild is byte-identical to the reference, repeated capped builds are identical; plus one geom-only "
        "scene (all flags off except a seeded mjVIS_STATIC, seeded geom groups and category mask): exactly the enabled, visible model geoms in "
        "order, each with float(geom_xpos), float(geom_xmat) and the model's size (infinite planes: pose re-centred by design, orientation "
        "checked); 'faulted_executions' counts capped builds; non-trivial = the uncapped scene is non-empty; distinct = hash of (model, N, mask)")
ASSUME = [
    "the fault 'the k-th geom acquisition fails' is injected through the scene capacity: acquireGeom returns NULL once ngeom == maxgeom, and every emitting site must survive it",
    "ASan build: the geom array is an exact-size heap block, so a write past the capacity is reported; the plain build runs many more cases",
    "that a capped scene is a prefix of the uncapped one is measured (probe) but not asserted: the statement does not promise it",
    "a geom whose effective alpha (own rgba, else material rgba) is 0 is not expected in the scene (the engine skips invisible geoms)",
    "skins are not reached (skin files need decoders that are stand-ins here); plugin visualisation hooks are not built",
]


def run(tier):
    if tier == "quick":
        plan = [dict(variant="asan", runs=480, label="asan", args=["--maxexec", "400"], timeout=280), dict(variant="plain", runs=6000, label="plain", args=["--maxexec", "600"], timeout=280)]
    else:
        plan = [dict(variant="asan", runs=160000, label="asan", args=["--maxexec", "2500"], timeout=3400), dict(variant="plain", runs=800000, label="plain", args=["--maxexec", "2500"], timeout=3400)]
    return nat.run_native("C50", tier, "c50.cc", plan, "fault_enumeration", RULE, ASSUME, nops=0, nmodel=80, engine="faultsim")
