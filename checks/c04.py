"""C04: staged and split pipeline calls equal the monolithic call (E3: seeded histories, full-copy twin, bitwise comparison)."""
import nat

RULE = ("one case = one seed = (generated or repo model) x (seeded prefix of 0-12 steps with random controls/forces so the instance is "
        "'used') x (3-10 rule applications from {step1+inputs+step2 vs inputs+step, forward then forwardSkip(POS|VEL) after changing only "
        "later-stage inputs vs full forward on a copy with stale lazy flags, inverse then inverseSkip vs full inverse, forward leaves the "
        "integration state bit-unchanged, with warm-start disabled a second forward changes nothing, plain steps}); non-trivial = at least "
        "one comparison; distinct = hash of (model summary, rule sequence)")
ASSUME = [
    "step1+step2 equivalence is checked for Euler/implicit/implicitfast with sleeping disabled (RK4 and sleeping are documented exceptions)",
    "with sleeping enabled the skip rules change no input between the full call and the skipped call (the position stage decides waking from velocities and applied forces)",
    "arena scratch arrays with unwritten entries and the solver-internal cone Hessian stored in mjContact are excluded from comparison (hist.h: scratch_fields)",
]


def run(tier):
    n = 6000 if tier == "quick" else 600000
    plan = [dict(variant="plain", runs=n, label="plain", timeout=300 if tier == "quick" else 3400)]
    return nat.run_native("C04", tier, "c04.cc", plan, "exploration", RULE, ASSUME, nops=10, nmodel=80)
