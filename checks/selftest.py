"""Self-test run by setup_cmd: the simulator must be deterministic before anything it reports is believed.
For each E1 driver: same seeds twice, pinned to one core vs free, batch vs one-seed-per-process, and
record -> replay-from-decision-list, must give identical trace digests."""
import os
import re
import sys
import time

import common as C

HASH_RE = re.compile(r"^RUN seed=(\d+) hash=([0-9a-f]+) .*?cfg=(\S+)", re.M)
DIG_RE = re.compile(r'"digest":"([0-9a-f]+)"')

DRIVERS = [("c03.cc", []), ("c40.cc", ["--mode", "table"]), ("c38.cc", []), ("c19.cc", ["--mode", "conc"]), ("c33.cc", ["--tolerate", "model-differs-after-fusestatic:*"]), ("c02.cc", []), ("c21t.cc", []), ("c31t.cc", [])]


def digest(binary, seed0, n, args, cpu=None, env=None, faildir="/tmp"):
    rc, out, err = C.run_proc([binary, "--seed", str(seed0), "--n", str(n), "--faildir", faildir] + args, 300, cpu=cpu, env=env)
    m = DIG_RE.search(out)
    if rc != 0 or not m:
        raise C.HarnessError("selftest: %s exited %s: %s" % (binary, rc, (out + err)[-500:]))
    return m.group(1)


def run(argv):
    t0 = time.time()
    wd = C.workdir("selftest")
    problems = []
    nseeds = 300
    for src, args in DRIVERS:
        if not os.path.exists(os.path.join(C.VERIF, "drivers", src)):
            continue
        per = max(4, nseeds // (12 if src in ("c02.cc", "c33.cc", "c31t.cc") else 60 if src == "c21t.cc" else 1))
        for variant in ("sim",):
            b = C.ensure_driver(variant, src)
            d1 = digest(b, 1000, per, args)
            d2 = digest(b, 1000, per, args, cpu=C.cpus()[0])
            d3 = digest(b, 1000, per, args, env={"MALLOC_PERTURB_": "165"})
            # the harness's own heap use (argument strings of another length, an extra option) must not move what the code under test sees
            longdir = os.path.join(wd, "a_directory_name_long_enough_to_leave_the_small_string_buffer_" + "x" * 40)
            os.makedirs(longdir, exist_ok=True)
            d4 = digest(b, 1000, per, args + ["--unused-option", "y" * 70], faildir=longdir)
            if not (d1 == d2 == d3 == d4):
                problems.append("%s: digests differ between free/pinned/perturbed-heap/other-arguments runs: %s %s %s %s" % (src, d1, d2, d3, d4))
            if src == "c21t.cc":
                continue   # several simulated runs per seed (one per faulted allocation): only the digest comparisons apply
            # batch vs single-seed processes, and record -> replay
            rc, out, err = C.run_proc([b, "--seed", "1000", "--n", "6", "--faildir", wd, "-v"] + args, 120)
            batch = {int(s): (h, cfg) for s, h, cfg in HASH_RE.findall(out)}
            for s, (h, cfg) in sorted(batch.items()):
                decf = os.path.join(wd, "dec_%s_%d.txt" % (src, s))
                rc, out, err = C.run_proc([b, "--seed", str(s), "--n", "1", "--faildir", wd, "-v", "--cfg", cfg, "--dumpdec", decf] + args, 120)
                hs = HASH_RE.findall(out)
                if not hs or hs[0][1] != h:
                    problems.append("%s seed %d: single-process hash %s != batch hash %s" % (src, s, hs[0][1] if hs else None, h))
                    continue
                rc, out, err = C.run_proc([b, "--seed", str(s), "--n", "1", "--faildir", wd, "-v", "--cfg", cfg, "--dec", decf] + args, 120)
                hs = HASH_RE.findall(out)
                if not hs or hs[0][1] != h:
                    problems.append("%s seed %d: replay from the recorded decision list gave hash %s, recorded %s" % (src, s, hs[0][1] if hs else None, h))
    for p in problems:
        print("SELFTEST FAILURE: " + p)
    print("selftest: %d problem(s), %.1fs" % (len(problems), time.time() - t0))
    return 2 if problems else 0
