"""C33: compilation is deterministic and copy-invariant (E1: the compiler's thread pools on the simulated scheduler + TSan-in-the-loop)."""
import e1

RULE = ("one case = one seed = (generated spec with 2-8 inline/builtin meshes, 1-6 builtin textures incl. random marks, 0-5 muscle actuators on "
        "joints and spatial tendons so that the length-range pool runs, 0-9 structure elements: nested frames with quat/euler/axisangle/xyaxes/zaxis "
        "orientations holding geoms (incl. fromto), sites, cameras, lights and static bodies, static-body chains, default classes, 15% fusestatic) x (hardware_concurrency knob 2..16, i.e. pool width 1..8) x (scheduling "
        "policy random/sticky/PCT/starve, basic-block preemption 0/0.01%/0.1%/1%, spurious condition-variable wake-ups); reference bytes = "
        "mj_saveModel of the usethread=0 compile; then, under the case's schedule: usethread=1 compile, second compile of the same spec, "
        "mj_copySpec compiled threaded and unthreaded, mj_copyModel, mj_recompile on a stepped mjData (model bytes + bit-identical time/qpos/"
        "qvel/act/ctrl), threaded compile of a re-parsed spec, a mesh file replaced in the VFS by a near-identical one (warm-cache compile must equal the cold-cache compile), and (half of the cases) a spec edit through the mjs API (new hinged body, new static geom) followed by mj_recompile in place: sizes, time, qpos/qvel/act/ctrl of everything that still exists bit-identical, new joint at qpos0, model identical to a fresh compile of a copy of the edited spec; every model must be byte-identical to the reference (the recorded fusestatic findings are counted in-driver for the steps that "
        "re-use a compiled fusestatic spec, nothing else is tolerated); a case is non-trivial when "
        ">=2 simulated threads were runnable at once; distinct = distinct hash of the scheduling trace")
ASSUME = [
    "mesh files are binary MSH buffers in a VFS (OBJ/STL decoders are plugins outside the build); the global asset cache is in play and is emptied before each case and before a seeded subset of its steps",
    "qhull, lodepng and MarchingCubes are stand-ins (the hull stand-in is a deterministic incremental hull): the property checked is schedule- and copy-independence of whatever the tree computes, not mesh content",
    "sequentially consistent execution; unsynchronised accesses in the compiler are found by the TSan-in-the-loop stage",
    "mj_recompile is exercised with an unchanged spec and with one additive edit (a new body appended to the world, so every earlier state component still exists at its old address)",
]


def run(tier):
    if tier == "quick":
        plan = [dict(variant="sim", runs=1600, label="sim", timeout=280), dict(variant="simtsan", runs=240, label="simtsan", timeout=280)]
    else:
        plan = [dict(variant="sim", runs=200000, label="sim", timeout=3400), dict(variant="simtsan", runs=30000, label="simtsan", timeout=3400)]
    return e1.run_e1("C33", tier, "c33.cc", plan, nops=6, rule=RULE, assumptions=ASSUME, design_ref="3/C33")
