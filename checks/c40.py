"""C40: extension registries stay consistent under concurrent use (E1: schedule search + TSan-in-the-loop)."""
import e1

RULE = ("one case = one seed = (0..16 sequential pre-registrations so that concurrent ones cross the 15-slot block boundary, then 2-4 "
        "simulated threads x 2-7 ops from {register new / identical / conflicting, lookup by name with case variants, lookup by slot, "
        "count, scan}) x (scheduling policy, basic-block preemption rate, CopyObject field order); mode 'table' = unmodified "
        "engine_global_table.h with a checksummed payload and a fresh table per run, mode 'api' = real engine_plugin.cc entry points "
        "(plugins and resource providers concurrently, then a sequential history of 1-24 decoder registrations, one of them with an empty content type in 30% of the runs, "
        "each looked up again) in a forked child per run; keys come in pairs that differ in one punctuation character of the set that differs from its partner by the case bit; "
        "in 30% of the table-mode runs one thread performs its operations inside the exclusive section of a second table; non-trivial = >=2 threads runnable at once and >=1 switch; "
        "distinct = distinct scheduling-trace hash")
ASSUME = [
    "sequentially consistent interleavings; memory-order mistakes are caught only as data races by the TSan-in-the-loop stages",
    "the payload table test opens GlobalTable's private constructor in the harness TU only (to get a fresh table per run); the header itself is compiled unmodified",
    "the encoder table shares the GlobalTable template and the registration code shape of the decoder table; it is exercised through the template ('table' mode) only",
    "sampled, not exhaustive",
]


def run(tier):
    if tier == "quick":
        plan = [dict(variant="sim", runs=30000, label="table/sim", args=["--mode", "table"], timeout=200),
                dict(variant="sim", runs=4000, label="api/sim", args=["--mode", "api"], timeout=200),
                dict(variant="simtsan", runs=6000, label="table/tsan", args=["--mode", "table"], timeout=200),
                dict(variant="simtsan", runs=160, label="api/tsan", args=["--mode", "api"], timeout=200)]
    else:
        plan = [dict(variant="sim", runs=3000000, label="table/sim", args=["--mode", "table"], timeout=3000),
                dict(variant="sim", runs=300000, label="api/sim", args=["--mode", "api"], timeout=3000),
                dict(variant="simtsan", runs=600000, label="table/tsan", args=["--mode", "table"], timeout=3000),
                dict(variant="simtsan", runs=60000, label="api/tsan", args=["--mode", "api"], timeout=3000)]
    return e1.run_e1("C40", tier, "c40.cc", plan, nops=32, rule=RULE, assumptions=ASSUME, design_ref="3/C40")
