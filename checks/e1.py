"""Generic E1 (vsim) check: seeded search over schedules with one native driver."""
import array
import json
import os
import re
import time

import common as C

SAMPLE_RE = re.compile(r"^SAMPLE (\{.*\})$", re.M)


def run_e1(prop, tier, driver, plan, nops, rule, assumptions, design_ref, extra_cov=None, on_summary=None, max_report=3):
    """plan: list of dicts {variant, runs, args(list), timeout, label}.  Returns exit code."""
    t0 = time.time()
    wd = C.workdir(prop)
    seed = C.base_seed()
    bins = {}
    for st in plan:
        v = st["variant"]
        if v not in bins:
            bins[v] = C.ensure_driver(v, driver)
    # recorded races are suppressed by call site (TSan suppression pattern stored with the finding) so that a known finding
    # neither ends a shard nor hides a different race
    known0 = C.known_keys(prop)
    supps = sorted({e["tsan_suppression"] for e in known0.values() if e.get("tsan_suppression")})
    if supps:
        sf = os.path.join(wd, "tsan.supp")
        with open(sf, "w") as f:
            f.write("\n".join(supps) + "\n")
        os.environ["VERIF_TSAN_SUPP"] = sf
    else:
        os.environ.pop("VERIF_TSAN_SUPP", None)
    # findings a driver can carry on after are passed as --tolerate (the driver counts them as probes tolerated_<key>)
    tol = sorted(k for k, e in known0.items() if not e.get("tsan_suppression") and not k.startswith("race"))
    tol_args = ["--tolerate", ",".join(tol)] if tol else []
    tolerated_met = {}
    supp_hits = {}
    stages = []
    all_fails = []
    hashes = set()
    samples = []
    total_runs = 0
    harness_problems = []
    scale = float(os.environ.get("VERIF_SCALE", "1"))
    for si, st in enumerate(plan):
        v = st["variant"]
        st = dict(st, runs=max(1, int(st["runs"] * scale)))
        # disjoint seed ranges per stage; VERIF_SEED shifts the whole exploration
        seed0 = seed * 1000003 * 1000 + si * 100000007
        shards = C.shard_runs(bins[v], st["runs"], seed0, list(st.get("args", [])) + tol_args + ["--hashfile", os.path.join(wd, "hashes_%d_" % si)], wd,
                              st.get("timeout", 600))
        # (the driver appends its first seed to the hashfile name, so every shard writes its own file)
        tot = C.merge_summaries(shards)
        for pk, pv in (tot.get("probes") or {}).items():
            if pk.startswith("tolerated_") and pv:
                tolerated_met[pk[len("tolerated_"):]] = tolerated_met.get(pk[len("tolerated_"):], 0) + int(pv)
        st_wall = max((s["wall"] for s in shards), default=0.0)
        nfail = 0
        for sh in shards:
            for cnt, pat in re.findall(r"^(\d+) (race\S*:\S+)$", sh["stderr"] or "", re.M):
                supp_hits[pat] = supp_hits.get(pat, 0) + int(cnt)
            for f in sh["fails"]:
                if f["class"] == "race":
                    f["class"] = "race:" + _race_signature(sh["stderr"])
                f["variant"] = v
                f["args"] = st.get("args", [])
                f["stderr"] = sh["stderr"]
                all_fails.append(f)
                nfail += 1
            ok_rc = sh["rc"] in (0, 10) or (sh["rc"] == 66 and sh["fails"])
            if sh["rc"] is None:
                harness_problems.append("stage %s shard %d timed out after %ss (seeds %d..%d)" % (st.get("label", v), sh["shard"], st.get("timeout", 600), sh["seed0"], sh["seed0"] + sh["n"] - 1))
            elif not ok_rc and not sh["fails"]:
                harness_problems.append("stage %s shard %d exited %s without a FAIL record: %s" % (st.get("label", v), sh["shard"], sh["rc"], (sh["stderr"] or sh["stdout_tail"])[-800:]))
        stages.append({"label": st.get("label", v), "variant": v, "runs_requested": st["runs"], "summary": tot, "wall_s": round(st_wall, 2), "fails": nfail})
        total_runs += tot.get("runs", 0)
        if on_summary:
            on_summary(st, tot)
    # distinct non-trivial traces: exact union over shards via hash files
    for fn in os.listdir(wd):
        if fn.startswith("hashes_"):
            a = array.array("Q")
            with open(os.path.join(wd, fn), "rb") as f:
                data = f.read()
            a.frombytes(data[: len(data) // 8 * 8])
            hashes.update(a)
    # samples: rerun three seeds verbosely (cheap) so evidence shows what a case looks like
    st0 = plan[0]
    rc, out, err = C.run_proc([bins[st0["variant"]], "--seed", str(seed * 1000003 * 1000), "--n", "3", "--faildir", wd] + list(st0.get("args", [])), 120)
    for m in SAMPLE_RE.finditer(out or ""):
        try:
            samples.append(json.loads(m.group(1)))
        except ValueError:
            pass

    violations = 0
    known = C.known_keys(prop)
    reported = {}
    for f in sorted(all_fails, key=lambda x: x["seed"]):
        key = f["class"]
        if key in reported:
            reported[key]["count"] += 1
            continue
        reported[key] = {"first": f, "count": 1}
    out_lines = []
    met = {}
    for key, info in list(reported.items())[:max_report]:
        f = info["first"]
        ff = C.parse_fail_file(f["file"])
        rec = {
            "property": prop, "engine": "vsim", "variant": f["variant"], "driver": driver, "seed": f["seed"], "class": f["class"],
            "msg": ff.get("msg", f["msg"]), "cfg": ff.get("cfg", ""), "scenario": ff.get("scenario", ""), "drop": ff.get("drop", []),
            "decisions": ff.get("decisions", []), "log_tail": ff.get("log_tail", []), "opts": _opts_from_args(f["args"]),
            "occurrences_in_this_run": info["count"], "tier": tier,
        }
        if f["class"].startswith("race"):
            rec["tsan_report"] = _tsan_excerpt(f["stderr"])
            rec["class"] = "race"      # what the driver reports on replay; the signature is kept separately
            rec["race_signature"] = f["class"]
        try:
            rec = C.e1_minimise(bins[f["variant"]], rec, wd, nops=nops)
        except Exception as e:  # minimisation is best effort; the unminimised record still replays
            rec["minimise_error"] = repr(e)
        if key in known:
            met[known[key]["key"]] = met.get(known[key]["key"], 0) + info["count"]
            continue
        path = C.write_replay(prop, rec)
        out_lines.append("VIOLATION property=%s replay=%s" % (prop, path))
        out_lines.append("  class=%s seed=%d variant=%s scenario=[%s] msg=%s" % (rec["class"], rec["seed"], rec["variant"], rec.get("scenario"), rec.get("msg")))
        violations += 1

    for tk, tv in tolerated_met.items():
        if tk in known:
            met[known[tk]["key"]] = met.get(known[tk]["key"], 0) + tv
    for key, e in sorted(known.items()):
        n = met.get(key, 0) + (supp_hits.get(e.get("tsan_suppression"), 0) if e.get("tsan_suppression") else 0)
        out_lines.insert(0, "KNOWN-FINDING: property=%s %s [key %s; met %d time(s) in this run]" % (prop, e.get("what", key), key, n))
    wall = time.time() - t0
    nontrivial = len(hashes)
    cov = {
        "evaluations": int(total_runs),
        "distinct_nontrivial": int(nontrivial),
        "rule": rule,
        "samples": samples[:3] or [{"note": "no sample captured"}],
        "exhaustive": False,
        "runs_per_hour": int(total_runs / wall * 3600) if wall > 0 else 0,
        "stages": stages,
        "simulated_time": {"unit": "scheduling points (the simulator's logical clock; no wall clock is read by the code under test)",
                           "total_points": sum(s["summary"].get("points", 0) for s in stages),
                           "total_opportunities": sum(s["summary"].get("opportunities", 0) for s in stages)},
        "faults_injected": {
            "context_switches": sum(s["summary"].get("switches", 0) for s in stages),
            "preemptions_at_basic_blocks": sum(s["summary"].get("preempt_bb", 0) for s in stages),
            "preemptions_at_memory_accesses": sum(s["summary"].get("preempt_ls", 0) for s in stages),
            "spurious_wakeups": sum(s["summary"].get("spurious", 0) for s in stages),
            "spin_parks": sum(s["summary"].get("parks", 0) for s in stages),
        },
        "components": C.REAL_STUB,
        "failure_classes_seen": {k: v["count"] for k, v in reported.items()},
    }
    if extra_cov:
        cov.update(extra_cov(stages) if callable(extra_cov) else extra_cov)
    if harness_problems and not violations:
        for h in harness_problems[:5]:
            print("HARNESS: " + h)
        C.write_evidence(prop, tier, "exploration", cov, wall, violations, assumptions, {"harness_problems": harness_problems[:10]})
        return 2
    C.write_evidence(prop, tier, "exploration", cov, wall, violations, assumptions)
    for l in out_lines:
        print(l)
    print("%s %s: %d runs, %d distinct non-trivial traces, %d violation(s), %.1fs" % (prop, tier, total_runs, nontrivial, violations, wall))
    return 1 if violations else 0


def _opts_from_args(args):
    o = {}
    i = 0
    while i + 1 < len(args):
        if args[i].startswith("--"):
            o[args[i][2:]] = args[i + 1]
            i += 2
        else:
            i += 1
    o.pop("hashfile", None)
    return o


def _tsan_first_report(err):
    i = err.find("WARNING: ThreadSanitizer")
    if i < 0:
        return ""
    j = err.find("SUMMARY: ThreadSanitizer", i)
    return err[i:(err.find("\n", j) if j >= 0 else i + 20000)]


def _tsan_excerpt(err):
    """first report, without the std::invoke / prelude plumbing frames"""
    rep = _tsan_first_report(err)
    if not rep:
        return err[-2000:]
    keep = [l for l in rep.split("\n") if not re.match(r"\s+#\d+ ", l) or "/repo/" in l or "/verif/drivers/" in l]
    return "\n".join(l[:300] for l in keep)[:6000]


def _race_signature(err):
    """'<innermost repo functions of access 1>|<... of access 2>' of the first report: names, not lines or addresses"""
    rep = _tsan_first_report(err)
    stacks, cur = [], None
    for l in rep.split("\n"):
        if re.match(r"\s+(Read|Write|Previous read|Previous write|Atomic|Previous atomic)", l):
            cur = []
            stacks.append(cur)
        elif re.match(r"\s+(Location|Thread|Mutex|As if)", l) or not l.strip():
            cur = None
        elif cur is not None:
            m = re.match(r"\s+#\d+ (\S+) (/repo/src/\S+?):\d+", l)
            if m and len(cur) < 2:
                cur.append(m.group(1))
    sig = sorted("<".join(s) for s in stacks[:2] if s)
    return "|".join(sig) if sig else "unattributed"
