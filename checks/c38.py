"""C38: the asset cache behaves as a bounded priority cache (E1: sequential reference model + linearizability under seeded schedules)."""
import e1

RULE = ("one case = one seed = either a sequential history of 5-45 cache operations (insert / lookup / has / remove-model / reset / "
        "set-capacity / delete / size / capacity over 3 models, 5 asset ids, 3 timestamps, sizes 0..4096, capacities 0..5000) compared "
        "op by op with a reference model, or 0-3 sequential inserts followed by 4-12 operations on 2-3 simulated threads under a seeded "
        "schedule (policy, basic-block preemption inside cache methods), checked for linearizability against the same model including "
        "the final size/capacity/held-set; non-trivial+distinct is counted over the concurrent cases only (>=2 threads runnable, >=1 "
        "switch, distinct scheduling-trace hash); sequential histories are reported under probes")
ASSUME = [
    "the reference model encodes the clauses of the statement: held set, Size = sum of held sizes <= Capacity, lookup hit iff held with the current timestamp and returns the data of the last accepted insert, eviction by (successful-lookup count, first-insertion order), RemoveModel deletes assets whose reference set becomes empty",
    "asset size and data are functions of (id, timestamp)",
    "sequentially consistent interleavings; the simtsan stage catches unsynchronised access (a dropped lock)",
    "linearizability histories are capped at 12 concurrent operations",
]


def run(tier):
    if tier == "quick":
        plan = [dict(variant="sim", runs=60000, label="sim", timeout=200), dict(variant="simtsan", runs=8000, label="simtsan", timeout=200)]
    else:
        plan = [dict(variant="sim", runs=6000000, label="sim", timeout=3000), dict(variant="simtsan", runs=800000, label="simtsan", timeout=3000)]
    return e1.run_e1("C38", tier, "c38.cc", plan, nops=64, rule=RULE, assumptions=ASSUME, design_ref="3/C38")
