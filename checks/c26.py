"""C26: the state vector API is a faithful serialization (E3: used instances, whole-mjData 'nothing else changed' diff)."""
import nat

RULE = ("one case = one seed = (generated or repo model) x (two instances driven through different seeded histories) x (6-20 seeded "
        "signatures [single bits, named unions, random subsets], or ALL 2^14 signatures in the 'exhaustive' stage for models with nq<40): "
        "size = slots written into a canary-padded buffer; set(get) into the other used instance restores those components and a whole-mjData "
        "diff shows nothing else changed; extract = get of the sub-signature; copyState = get+set; then mj_resetData and mj_resetDataDebug (seeded non-zero fill byte) of a used and poisoned "
        "instance = fresh instance on every array, and keyframe reset = reset + the keyframe's values; non-trivial = at least one "
        "signature checked; distinct = hash of (model summary, signature sequence)")
ASSUME = [
    "the receiving instances are stepped and (for reset) poisoned first: the claim is about every mjData, not fresh ones",
    "plugin state is not exercised (no plugins built): the PLUGIN bit always has size 0",
    "arena scratch arrays with unwritten entries are excluded from the reset comparison (hist.h: scratch_fields)",
]


def run(tier):
    if tier == "quick":
        plan = [dict(variant="plain", runs=4000, label="random", timeout=300), dict(variant="plain", runs=32, label="exhaustive", args=["--exhaustive", "1"], timeout=300)]
    else:
        plan = [dict(variant="plain", runs=400000, label="random", timeout=3400), dict(variant="plain", runs=3200, label="exhaustive", args=["--exhaustive", "1"], timeout=3400)]
    return nat.run_native("C26", tier, "c26.cc", plan, "exploration", RULE, ASSUME, nops=32, nmodel=80)
