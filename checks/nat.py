"""Generic runner for native E2/E3 drivers (one seed = one case)."""
import array
import json
import os
import re
import time

import common as C

SAMPLE_RE = re.compile(r"^SAMPLE (\{.*\})$", re.M)


def corpus_file():
    """List of repo XML models that load under the stub build (probed once per build dir)."""
    path = os.path.join(C.build.BUILD, "corpus.txt")
    stamp = path + ".stamp"
    key = C.build.header_hash()[:16]
    if os.path.exists(path) and os.path.exists(stamp) and open(stamp).read() == key:
        return path
    probe = C.ensure_driver("plain", "corpus_probe.c")
    files = []
    for root in ("model", "test"):
        for dp, dn, fn in os.walk(os.path.join(C.build.REPO, root)):
            for f in fn:
                if f.endswith(".xml"):
                    files.append(os.path.join(dp, f))
    files.sort()
    good = []
    # probe in chunks so that one crashing file cannot take the whole list with it
    for i in range(0, len(files), 40):
        rc, out, err = C.run_proc([probe] + files[i:i + 40], 300)
        for line in (out or "").split("\n"):
            if line.startswith("OK "):
                good.append(line.split()[1])
    with open(path + ".tmp", "w") as f:
        f.write("\n".join(good) + "\n")
    os.replace(path + ".tmp", path)
    with open(stamp, "w") as f:
        f.write(key)
    return path


def replay_cmd(binary, rec, wd):
    cmd = [binary, "--seed", str(rec["seed"]), "--n", "1", "--faildir", wd]
    if rec.get("drop"):
        cmd += ["--drop", ",".join(str(x) for x in rec["drop"])]
    if rec.get("mdrop"):
        cmd += ["--mdrop", ",".join(str(x) for x in rec["mdrop"])]
    for k, v in (rec.get("opts") or {}).items():
        cmd += ["--" + k, str(v)]
    return cmd


def try_once(binary, rec, wd, timeout=60):
    rc, out, err = C.run_proc(replay_cmd(binary, rec, wd), timeout)
    if rc is None:
        return "timeout", out, err
    m = C.FAIL_RE.search(out or "")
    if m:
        return m.group(2), out, err
    if rc in (67, 68) or "ERROR: AddressSanitizer" in (err or "") or "runtime error:" in (err or ""):
        return "sanitizer", out, err
    if rc != 0:
        return "exit%d" % rc, out, err
    return None, out, err


def minimise(binary, rec, wd, nops, nmodel, budget_s=60):
    cls = rec["class"]
    t_end = time.time() + budget_s

    def holds(r):
        if time.time() > t_end:
            return False
        c, _, _ = try_once(binary, r, wd)
        return c == cls

    if not holds(rec):
        rec["minimised"] = False
        rec["replay_reproduces"] = False
        return rec
    keep = [i for i in range(nops) if i not in set(rec.get("drop") or [])]

    def t_ops(sub):
        r = dict(rec)
        r["drop"] = sorted(set(range(nops)) - set(sub))
        return holds(r)

    keep = C.ddmin(keep, t_ops, 120)
    rec = dict(rec)
    rec["drop"] = sorted(set(range(nops)) - set(keep))
    if nmodel and not str(rec.get("scenario", "")).startswith("corpus:"):
        mkeep = [i for i in range(nmodel) if i not in set(rec.get("mdrop") or [])]

        def t_m(sub):
            r = dict(rec)
            r["mdrop"] = sorted(set(range(nmodel)) - set(sub))
            return holds(r)

        mkeep = C.ddmin(mkeep, t_m, 120)
        rec["mdrop"] = sorted(set(range(nmodel)) - set(mkeep))
    rec["minimised"] = True
    c, out, err = try_once(binary, rec, wd)
    rec["replay_reproduces"] = c == cls
    m = C.FAIL_RE.search(out or "")
    if m:
        ff = C.parse_fail_file(m.group(3))
        rec["msg"] = ff.get("msg", rec.get("msg"))
        rec["scenario"] = ff.get("scenario", rec.get("scenario"))
        rec["context"] = "\n".join(ff.get("log_tail", []))[-6000:]
    if err and err.strip():
        rec["stderr_tail"] = err[-3000:]
    return rec


def run_native(prop, tier, driver, plan, level, rule, assumptions, nops=0, nmodel=0, finding_key=None, extra_cov=None, use_corpus=True, engine="histsim", max_report=3):
    """plan: list of {variant, runs, args, timeout, label}.  finding_key(rec) -> str maps a failure to a known-findings key."""
    t0 = time.time()
    wd = C.workdir(prop)
    seed = C.base_seed()
    bins = {}
    for st in plan:
        if st["variant"] not in bins:
            bins[st["variant"]] = C.ensure_driver(st["variant"], driver)
    corpus_args = ["--corpus", corpus_file()] if use_corpus else []
    known0 = C.known_keys(prop)
    if known0:
        corpus_args = corpus_args + ["--tolerate", ",".join(sorted(known0))]
    stages, fails, problems = [], [], []
    total = 0
    scale = float(os.environ.get("VERIF_SCALE", "1"))
    for si, st in enumerate(plan):
        v = st["variant"]
        st = dict(st, runs=max(1, int(st["runs"] * scale)))
        seed0 = seed * 1000003 * 1000 + si * 100000007
        args = list(st.get("args", [])) + corpus_args + ["--hashfile", os.path.join(wd, "hashes_%d_" % si)]
        shards = C.shard_runs(bins[v], st["runs"], seed0, args, wd, st.get("timeout", 600))
        tot = C.merge_summaries(shards)
        nf = 0
        for sh in shards:
            for f in sh["fails"]:
                f["variant"] = v
                f["args"] = list(st.get("args", [])) + corpus_args
                f["stderr"] = sh["stderr"]
                fails.append(f)
                nf += 1
            if sh["rc"] is None:
                problems.append("stage %s shard %d timed out (seeds %d..%d)" % (st.get("label", v), sh["shard"], sh["seed0"], sh["seed0"] + sh["n"] - 1))
            elif sh["rc"] not in (0, 10) and not sh["fails"]:
                if "ERROR: AddressSanitizer" in sh["stderr"] or "runtime error:" in sh["stderr"] or sh["rc"] in (67, 68):
                    # sanitizer report without a FAIL record: attribute to the shard's seeds by re-running one by one
                    fails.append({"seed": -1, "class": "sanitizer", "file": "", "msg": sh["stderr"][-1500:], "variant": v, "args": list(st.get("args", [])) + corpus_args,
                                  "stderr": sh["stderr"], "shard": (sh["seed0"], sh["n"])})
                    nf += 1
                else:
                    problems.append("stage %s shard %d exited %s without a FAIL record: %s" % (st.get("label", v), sh["shard"], sh["rc"], (sh["stderr"] or sh["stdout_tail"])[-600:]))
        stages.append({"label": st.get("label", v), "variant": v, "runs_requested": st["runs"], "summary": tot, "wall_s": round(max((s["wall"] for s in shards), default=0), 2), "fails": nf})
        total += tot.get("runs", 0)
    hashes = set()
    for fn in os.listdir(wd):
        if fn.startswith("hashes_"):
            a = array.array("Q")
            data = open(os.path.join(wd, fn), "rb").read()
            a.frombytes(data[: len(data) // 8 * 8])
            hashes.update(a)
    samples = []
    st0 = plan[0]
    rc, out, err = C.run_proc([bins[st0["variant"]], "--seed", str(seed * 1000003 * 1000), "--n", "12", "--faildir", wd] + list(st0.get("args", [])) + corpus_args, 300)
    for m in SAMPLE_RE.finditer(out or ""):
        try:
            samples.append(json.loads(m.group(1)))
        except ValueError:
            pass

    known = C.known_keys(prop)
    violations = 0
    lines = []
    grouped = {}
    for f in sorted(fails, key=lambda x: x["seed"]):
        # locate seed of an unattributed sanitizer report
        if f["seed"] < 0:
            s0, n = f["shard"]
            for s in range(s0, s0 + n):
                c, o, e = try_once(bins[f["variant"]], {"seed": s, "opts": _opts(f["args"])}, wd)
                if c is not None:
                    f["seed"] = s
                    f["msg"] = (e or "")[-1500:]
                    break
            if f["seed"] < 0:
                problems.append("sanitizer report in shard %s could not be attributed to a seed" % (f["shard"],))
                continue
        ff = C.parse_fail_file(f["file"]) if f.get("file") else {}
        rec = {"property": prop, "engine": engine, "variant": f["variant"], "driver": driver, "seed": f["seed"], "class": f["class"], "msg": ff.get("msg", f["msg"]),
               "scenario": ff.get("scenario", ""), "drop": ff.get("drop", []), "mdrop": [int(x) for x in ff.get("mdrop", "").split(",") if x.strip()] if isinstance(ff.get("mdrop"), str) else [],
               "opts": _opts(f["args"]), "context": "\n".join(ff.get("log_tail", []))[-6000:], "tier": tier}
        key = finding_key(rec) if finding_key else rec["class"]
        g = grouped.setdefault(key, {"first": rec, "count": 0})
        g["count"] += 1
    for key, g in list(grouped.items()):
        rec = g["first"]
        rec["occurrences_in_this_run"] = g["count"]
        rec["finding_key"] = key
        if key in known:
            lines.append("KNOWN-FINDING: property=%s %s" % (prop, known[key].get("what", key)))
            continue
        if violations >= max_report:
            violations += 1
            continue
        try:
            rec = minimise(bins[rec["variant"]], rec, wd, nops, nmodel)
        except Exception as e:
            rec["minimise_error"] = repr(e)
        path = C.write_replay(prop, rec)
        lines.append("VIOLATION property=%s replay=%s" % (prop, path))
        lines.append("  class=%s seed=%d key=%s msg=%s" % (rec["class"], rec["seed"], key, str(rec.get("msg"))[:300]))
        violations += 1

    # every listed finding of this property is announced (with how often this run met it); the drivers tolerate
    # them (case abandoned, run continued), so a recorded finding does not cost coverage
    seen = {}
    for st in stages:
        for k, v in (st["summary"].get("probes") or {}).items():
            if k.startswith("tolerated_") and v:
                e = known.match(k[len("tolerated_"):])
                if e is not None:
                    seen[e["key"]] = seen.get(e["key"], 0) + v
    lines = [l for l in lines if not l.startswith("KNOWN-FINDING")]
    for key, e in sorted(known.items()):
        lines.insert(0, "KNOWN-FINDING: property=%s %s [key %s; met %d time(s) in this run]" % (prop, e.get("what", key), key, seen.get(key, 0) + sum(g["count"] for kk, g in grouped.items() if known.match(kk) is e)))
    wall = time.time() - t0
    cov = {
        "evaluations": int(total),
        "distinct_nontrivial": int(len(hashes)),
        "rule": rule,
        "samples": samples[:3] or [{"note": "no sample captured"}],
        "exhaustive": False,
        "runs_per_hour": int(total / wall * 3600) if wall > 0 else 0,
        "stages": stages,
        "components": C.REAL_STUB,
        "failure_classes_seen": {k: v["count"] for k, v in grouped.items()},
    }
    if extra_cov:
        cov.update(extra_cov(stages) if callable(extra_cov) else extra_cov)
    if problems and not violations:
        for p in problems[:5]:
            print("HARNESS: " + p)
        C.write_evidence(prop, tier, level, cov, wall, violations, assumptions, {"harness_problems": problems[:10]})
        return 2
    C.write_evidence(prop, tier, level, cov, wall, violations, assumptions)
    for l in lines:
        print(l)
    print("%s %s: %d cases, %d distinct non-trivial, %d violation(s), %.1fs" % (prop, tier, total, len(hashes), violations, wall))
    return 1 if violations else 0


def _opts(args):
    o = {}
    i = 0
    while i + 1 < len(args):
        if args[i].startswith("--"):
            o[args[i][2:]] = args[i + 1]
            i += 2
        else:
            i += 1
    o.pop("hashfile", None)
    return o
