"""C31: binary model files round-trip exactly; corrupt files are rejected (E2: crash-point and corruption enumeration, simulated disk, ASan)."""
import nat

RULE = ("one case = one seed = one generated or repo model: (1) save -> load -> save gives identical bytes and mj_sizeModel equals the bytes "
        "written (through a buffer, through the simulated disk, and through a real file that is overwritten by a model of another size), the flg_* members of the reloaded model equal the original's, and the "
        "same seeded 3-12 steps on the original and on the reloaded model leave every mjData array bit-identical; (2) write faults of the simulated disk: short write, ENOSPC (must be "
        "reported), torn write at a seeded length (reload must reject or give an in-bounds model), lost write, short read; (3) crash points: "
        "EVERY truncation length 0..size-1 for models up to 'maxtrunc' bytes (larger: first 600, every array boundary +-1, last 64, seeded "
        "sample); (4) corruption at rest: single-byte substitutions {00,FF,7F,80,+1,-1} over header and sizes, illegal and boundary values in "
        "36 cross-reference fields taken from an independent bounds table, 40 seeded multi-byte bursts; each load runs on an exact-size heap "
        "copy under ASan with a tracking allocator; 'faulted_executions' counts loads of damaged files; non-trivial = every model; distinct = "
        "hash of (model, size)")
ASSUME = [
    "a damaged file must be rejected with a warning/error and NULL, or yield a model whose 36 table fields are in bounds; an illegal value written into a table field must be rejected",
    "allocations above max(4 MiB, 16 x the size of the undamaged file) are refused by the harness allocator (a corrupted size field must not make the check allocate gigabytes); the resulting 'Could not allocate memory' error counts as rejection",
    "leaks on rejection are decided by the live-block table of the public allocator hooks",
]


RULE_T = ("concurrent use: one case = one seed = 2-4 generated models of different sizes + one damaged file (truncation or raised size field) x "
          "2-4 simulated threads, each with 1-4 seeded operations (load a buffer and save it again / load, mj_copyModel, save / load and "
          "mj_sizeModel / save a shared source model) x schedule (random/sticky/PCT/starve, basic-block preemption 0.01%-10%); every result "
          "must equal the result of the same operation executed alone (identical bytes for intact files, NULL for the damaged one); the simtsan "
          "stage runs the same cases under ThreadSanitizer")


def run(tier):
    import time
    import common as C
    import e1
    t0 = time.time()
    if tier == "quick":
        plan = [dict(variant="asan", runs=48, label="asan", args=["--maxtrunc", "3000", "--maxcorrupt", "2000"], timeout=400)]
        tplan = [dict(variant="sim", runs=1600, label="concurrent-loads-sim", timeout=200), dict(variant="simtsan", runs=320, label="concurrent-loads-simtsan", timeout=200)]
    else:
        plan = [dict(variant="asan", runs=3000, label="asan", args=["--maxtrunc", "20000", "--maxcorrupt", "12000"], timeout=3400)]
        tplan = [dict(variant="sim", runs=160000, label="concurrent-loads-sim", timeout=3400), dict(variant="simtsan", runs=32000, label="concurrent-loads-simtsan", timeout=3400)]
    rc1 = nat.run_native("C31", tier, "c31.cc", plan, "fault_enumeration", RULE, ASSUME, nops=0, nmodel=80, engine="faultsim")
    ev1 = C.load_evidence("C31")
    rc2 = e1.run_e1("C31", tier, "c31t.cc", tplan, nops=12, rule=RULE_T, assumptions=ASSUME, design_ref="4/C31")
    ev2 = C.load_evidence("C31")
    if ev2:
        ev2["level"] = "fault_enumeration"
    C.merge_evidence("C31", [ev1, ev2], RULE + " || " + RULE_T, t0)
    return 1 if 1 in (rc1, rc2) else 2 if 2 in (rc1, rc2) else 0
