"""Replay of a violation found by a native (E2/E3) driver."""
import common as C
import nat


def replay(rec, path):
    wd = C.workdir("replay")
    b = C.ensure_driver(rec["variant"], rec["driver"])
    cls, out, err = nat.try_once(b, rec, wd, timeout=300)
    print("replay: " + " ".join(nat.replay_cmd(b, rec, wd)))
    if err and err.strip():
        print(err[-4000:])
    print((out or "")[-2000:])
    if cls == rec.get("class"):
        print("VIOLATION property=%s replay=%s" % (rec.get("property"), path))
        print("reproduced: class=%s" % cls)
        return 1
    print("replay did not reproduce class %s (got %s)" % (rec.get("class"), cls))
    return 0 if cls is None else 2
