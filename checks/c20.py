"""C20: exhausted arena memory is handled gracefully (E2: arena-size fault enumeration under ASan)."""
import nat

RULE = ("one case = one seed = one model from a seeded family chosen for the allocation site it stresses (dense cluster of single-geom free "
        "bodies: broad-phase pair list; many explicit <pair>s; multi-geom bodies: mid-phase; general generated scenes: efc and island arrays; "
        "repo models) x EVERY arena size from 0 to what forward+3 steps need with ample memory, in steps of 8 bytes shifted by a seeded 0..7 bytes (the declared memory need not be aligned) (models needing more than "
        "8*maxexec bytes: all sizes <= 2 KiB, the last 1 KiB below the need, and a seeded sample); each size is one faulted execution: "
        "mj_makeData, mj_forward, 3 x mj_step under the ASan build with the engine's own arena poisoning; evaluations counts models, the "
        "'faulted_executions' probe counts executions; non-trivial = some size produced a warning or a caught error; distinct = hash of (model, sizes)")
ASSUME = [
    "the fault 'allocation k of the step fails' is injected through m->narena: a smaller arena makes an earlier allocation the first to fail",
    "a returned call is compared with the same call under ample memory: fewer contacts / rows / islands must come with a CONTACTFULL or CNSTRFULL warning",
    "mju_error raised by the stack allocator is an accepted outcome (caught by the handler); the instance is then discarded",
    "ASan sees any access outside the exact-size arena block and any read of arena memory the engine has not allocated (mjUSEASAN poisoning)",
]


def run(tier):
    if tier == "quick":
        plan = [dict(variant="asan", runs=64, label="asan", args=["--maxexec", "1200"], timeout=400)]
    else:
        plan = [dict(variant="asan", runs=4000, label="asan", args=["--maxexec", "6000"], timeout=3400)]
    return nat.run_native("C20", tier, "c20.cc", plan, "fault_enumeration", RULE, ASSUME, nops=0, nmodel=80, engine="faultsim")
