"""C21: allocation failure never causes undefined behaviour (E2: exhaustive single-fault enumeration + seeded multi-fault, ASan)."""
import nat

RULE = ("one case = one seed = (generated model) x (scenario S1 parse/compile/makeData/3 steps/copyData/copyModel/saveModel/loadModelBuffer, "
        "S2 compile/makeData/recompile/spec edit through the mjs API (new body, joint, geoms)/recompile in place/copySpec/saveXMLString/saveModel, or S3 makeData/step/resetDataKeyframe/setKeyframe/threadpool create+"
        "step+destroy/copyData into existing); a dry run counts N calls of mju_user_malloc, then for EVERY k in 1..N the k-th call returns NULL "
        "(exhaustive single faults), then 12 seeded multi-fault runs; 'faulted_executions' counts them; each is followed by the fault-free "
        "scenario in the same process, whose model bytes must equal the baseline; non-trivial = every model/scenario; distinct = hash of "
        "(model, scenario)")
ASSUME = [
    "only blocks from MuJoCo's allocator (mju_malloc/mju_free through the public hooks) are tracked, as the statement says; C++ new inside the compiler is not",
    "mju_error handlers do not return (MuJoCo's contract): the harness longjmps, deletes every handle it holds, and then inspects the live-block table",
    "mj_recompile deletes the given model and data on failure (documented); the harness treats them as gone",
    "leaks are identified by what a user observes: the kind of object left behind (by size: mjModel / mjData struct, their buffers, the arena) and the API call in which the allocation failed",
]


RULE_T = ("threaded compile: one case = one seed = (generated spec with colliding meshes - hulls computed on the asset pool's threads - "
          "textures and muscles) x (pool width, schedule) on the simulated scheduler; a dry run counts the N allocator calls of "
          "mj_compile(usethread=1); then for EVERY k <= N (N <= maxexec, else first, last and a seeded sample) the k-th call fails in a fresh run "
          "under the same schedule: no signal, no mju_error delivered to the user handler on a worker thread, no double/foreign free, no pool "
          "deadlock, mj_compile returns NULL with a message, a deep copy (mj_copySpec) of the spec whose compile has just failed compiles to the baseline bytes, and a fault-free compile in the same process gives the baseline bytes")


def run(tier):
    import time
    import common as C
    import e1
    t0 = time.time()
    if tier == "quick":
        plan = [dict(variant="asan", runs=112, label="asan", timeout=400)]
        tplan = [dict(variant="sim", runs=192, label="threaded-compile-sim", args=["--maxexec", "40"], timeout=280)]
    else:
        plan = [dict(variant="asan", runs=16000, label="asan", args=["--multi", "60"], timeout=3400)]
        tplan = [dict(variant="sim", runs=32000, label="threaded-compile-sim", args=["--maxexec", "200"], timeout=3400)]
    rc1 = nat.run_native("C21", tier, "c21.cc", plan, "fault_enumeration", RULE, ASSUME, nops=0, nmodel=80, use_corpus=False, engine="faultsim")
    ev1 = C.load_evidence("C21")
    rc2 = e1.run_e1("C21", tier, "c21t.cc", tplan, nops=0, rule=RULE_T, assumptions=ASSUME, design_ref="4/C21")
    ev2 = C.load_evidence("C21")
    if ev2:
        ev2["level"] = "fault_enumeration"
    C.merge_evidence("C21", [ev1, ev2], RULE + " || " + RULE_T, t0)
    return 1 if 1 in (rc1, rc2) else 2 if 2 in (rc1, rc2) else 0
