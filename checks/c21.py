"""C21: allocation failure never causes undefined behaviour (E2: exhaustive single-fault enumeration + seeded multi-fault, ASan)."""
import nat

RULE = ("one case = one seed = (generated model) x (scenario S1 parse/compile/makeData/3 steps/copyData/copyModel/saveModel/loadModelBuffer, "
        "S2 compile/makeData/recompile/copySpec/saveXMLString/saveModel, or S3 makeData/step/resetDataKeyframe/setKeyframe/threadpool create+"
        "step+destroy/copyData into existing); a dry run counts N calls of mju_user_malloc, then for EVERY k in 1..N the k-th call returns NULL "
        "(exhaustive single faults), then 12 seeded multi-fault runs; 'faulted_executions' counts them; each is followed by the fault-free "
        "scenario in the same process, whose model bytes must equal the baseline; non-trivial = every model/scenario; distinct = hash of "
        "(model, scenario)")
ASSUME = [
    "only blocks from MuJoCo's allocator (mju_malloc/mju_free through the public hooks) are tracked, as the statement says; C++ new inside the compiler is not",
    "mju_error handlers do not return (MuJoCo's contract): the harness longjmps, deletes every handle it holds, and then inspects the live-block table",
    "mj_recompile deletes the given model and data on failure (documented); the harness treats them as gone",
    "leaks are identified by what a user observes: the kind of object left behind (by size: mjModel / mjData struct, their buffers, the arena) and the API call in which the allocation failed",
]


def run(tier):
    if tier == "quick":
        plan = [dict(variant="asan", runs=160, label="asan", timeout=400)]
    else:
        plan = [dict(variant="asan", runs=16000, label="asan", args=["--multi", "60"], timeout=3400)]
    return nat.run_native("C21", tier, "c21.cc", plan, "fault_enumeration", RULE, ASSUME, nops=0, nmodel=80, use_corpus=False, engine="faultsim")
