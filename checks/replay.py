"""Replay a violation file in a fresh process: exit 1 and print the VIOLATION line again if it reproduces."""
import json
import os

import common as C


def replay(path):
    with open(path) as f:
        rec = json.load(f)
    prop = rec.get("property", "?")
    eng = rec.get("engine", "vsim")
    wd = C.workdir("replay")
    if eng == "vsim":
        b = C.ensure_driver(rec["variant"], rec["driver"])
        cmd = C.e1_replay_cmd(b, rec, wd, log=True)
        rc, out, err = C.run_proc(cmd, 300)
        m = C.FAIL_RE.search(out or "")
        print("replay: " + " ".join(cmd))
        if err.strip():
            print(err[-4000:])
        if m and m.group(2) == rec.get("class"):
            print(out[-3000:])
            print("VIOLATION property=%s replay=%s" % (prop, path))
            print("reproduced: class=%s msg=%s" % (m.group(2), m.group(4)))
            return 1
        print(out[-1500:])
        print("replay did not reproduce class %s (got %s, rc=%s)" % (rec.get("class"), m.group(2) if m else None, rc))
        return 0 if rc == 0 else 2
    import replay_native
    return replay_native.replay(rec, path)
