"""C02: multithreaded stepping is bit-identical to single-threaded (E1: whole engine under the simulated scheduler + TSan-in-the-loop)."""
import e1
import nat

RULE = ("one case = one seed = (model from a family chosen so that a step has several constraint islands and/or more than 16 candidate "
        "collision pairs: groups of dense clusters, one dense cluster, forests of articulated trees on a floor, repo models, a tactile pad with >=1000 taxels; seeded "
        "solver/cone/jacobian/integrator/island/sleep/noslip/multiccd options) x (pool of 1-8 simulated workers, optionally resized in "
        "mid-history) x (history of 2-8 calls: mj_step x1-3, mj_forward, mj_forward+mj_inverse, control/force/mocap/equality writes, resets) "
        "x (scheduling policy random/sticky/PCT/starve, basic-block preemption 0/0.03%/0.3%/3%, spurious wake-ups); a pool-less twin with "
        "differently seeded arena garbage receives the same calls and after every computing call every mjData array, live arena array, "
        "counter, solver statistic and warning count must be bit-equal; a case is non-trivial when >=2 simulated threads were runnable at "
        "once; distinct = distinct hash of the scheduling trace")
ASSUME = [
    "memory is generous (32M arena for models of <=80 bodies): exhaustion under the no-free thread lock is C20's subject",
    "the simulator serialises threads (sequentially consistent); unsynchronised accesses are found by the TSan-in-the-loop stage, whose only happens-before edges are the ones the engine's own atomics/joins create",
    "arena scratch arrays whose unwritten part is unspecified (iacc, iefc_*, ifrc_*, contact.H, sparse structure under a dense Jacobian) are excluded from the comparison, as in C01",
    "tactile sensors: a builtin plate mesh with >=1000 taxels touched by small bodies (probe compared_calls_with_parallel_tactile_sensor counts calls in which the sensor produced non-zero output under a pool)",
]


def run(tier):
    corpus = ["--corpus", nat.corpus_file()]
    if tier == "quick":
        plan = [dict(variant="sim", runs=2400, label="sim", args=corpus, timeout=280), dict(variant="simtsan", runs=480, label="simtsan", args=corpus, timeout=280)]
    else:
        plan = [dict(variant="sim", runs=300000, label="sim", args=corpus, timeout=3400), dict(variant="simtsan", runs=40000, label="simtsan", args=corpus, timeout=3400)]
    return e1.run_e1("C02", tier, "c02.cc", plan, nops=8, rule=RULE, assumptions=ASSUME, design_ref="3/C02")
