"""C18: sleeping islands are frozen and wake on the documented events (E3: seeded histories of steps and user events)."""
import nat

RULE = ("one case = one seed = (generated multi-tree scene with the sleep flag on, large sleep tolerance, actuators in 35% of the models (seeded controls), contacts/equalities/"
        "tendons/mocap, or a repo sleep test model) x (history of 6-30 events: blocks of 5-60 steps, user writes of qpos / qvel (incl. -0.0) / "
        "qfrc_applied / xfrc_applied mostly on sleeping trees, zeroing forces, mocap moves onto a tree, equality toggles, mj_forward); after "
        "every step: closed sleep cycles, frozen qpos and zero qvel of trees that stayed asleep, whole former island awake after a user event, "
        "no penetrating active contact between a sleeping and an awake tree, derived counters consistent, and a twin with the flag off "
        "bit-equal while no tree has slept; non-trivial = at least one tree fell asleep; distinct = hash of (model, event sequence)")
ASSUME = [
    "qpos events move a joint by >= 0.02 (the engine detects user changes by comparing recomputed body poses, so sub-rounding changes are not 'changes')",
    "a force that is zeroed again before the next engine call creates no wake obligation",
    "'touches' is asserted only for active contacts with penetration (dist < 0 and a constraint row), which is weaker than the implementation's rule",
    "twin comparison covers qpos, qvel, act, qacc, sensordata, contacts, efc_force, qfrc_constraint, warm start, time, ncon, nefc",
]


def run(tier):
    n = 2500 if tier == "quick" else 250000
    plan = [dict(variant="plain", runs=n, label="plain", timeout=300 if tier == "quick" else 3400)]
    return nat.run_native("C18", tier, "c18.cc", plan, "exploration", RULE, ASSUME, nops=32, nmodel=80)
