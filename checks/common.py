"""Shared orchestration for all checks: build, sharded execution of native drivers, failure
collection, replay files, minimisation, evidence, known findings.

Exit-code contract of a check: 0 = property held on everything explored (known findings are
printed as KNOWN-FINDING lines), 1 = VIOLATION line printed, 2 = harness failure (never a verdict).
"""
import concurrent.futures as cf
import json
import os
import re
import shutil
import subprocess
import sys
import tempfile
import time

VERIF = os.path.dirname(os.path.dirname(os.path.abspath(__file__)))
sys.path.insert(0, os.path.join(VERIF, "vbuild"))
import build  # noqa: E402

REPLAYS = os.environ.get("VERIF_REPLAY_DIR", os.path.join(VERIF, "replays"))
EVIDENCE = os.environ.get("VERIF_EVIDENCE_DIR", os.path.join(VERIF, "evidence"))
KNOWN = os.path.join(VERIF, "known_findings.json")
WORK = os.path.join(build.BUILD, "work")


class HarnessError(Exception):
    pass


def cpus():
    try:
        return sorted(os.sched_getaffinity(0))
    except AttributeError:
        return list(range(os.cpu_count() or 1))


def nproc():
    return max(1, min(len(cpus()), int(os.environ.get("VERIF_JOBS", "16"))))


def base_seed():
    try:
        return int(os.environ.get("VERIF_SEED", "0"))
    except ValueError:
        return 0


def workdir(prop):
    d = os.path.join(WORK, prop)
    shutil.rmtree(d, ignore_errors=True)
    os.makedirs(d, exist_ok=True)
    return d


def ensure_driver(variant, src, name=None, **kw):
    try:
        return build.driver(variant, os.path.join(VERIF, "drivers", src), name, **kw)
    except build.BuildError as e:
        raise HarnessError("build of %s/%s failed (harness failure, not a verdict):\n%s" % (variant, src, str(e)[-3000:]))


SIM_ENV = {
    "TSAN_OPTIONS": "report_signal_unsafe=0:exitcode=66:history_size=4:halt_on_error=0:report_thread_leaks=0",
    "ASAN_OPTIONS": "detect_leaks=0:abort_on_error=0:exitcode=67:allocator_may_return_null=1:max_allocation_size_mb=1024:handle_abort=0",
    "UBSAN_OPTIONS": "print_stacktrace=1:halt_on_error=1:exitcode=68",
    "VSIM_NOREEXEC": "",
}


def _env(extra=None):
    e = dict(os.environ)
    for k, v in SIM_ENV.items():
        if k == "VSIM_NOREEXEC":
            e.pop(k, None)
        else:
            e[k] = v
    supp = os.environ.get("VERIF_TSAN_SUPP")
    if supp:   # recorded (known) races of the property under check: suppressed by call site, counted at exit
        e["TSAN_OPTIONS"] += ":suppressions=%s:print_suppressions=1" % supp
    if extra:
        e.update(extra)
    return e


def run_proc(cmd, timeout, cpu=None, env=None, cwd=None, stdin=None):
    """Run one process under a hard wall-clock timeout.  Returns (rc, stdout, stderr); rc None = timeout."""
    if cpu is not None:
        cmd = ["taskset", "-c", str(cpu)] + cmd
    try:
        p = subprocess.run(cmd, capture_output=True, text=True, timeout=timeout, env=_env(env), cwd=cwd, errors="replace", input=stdin)
        return p.returncode, p.stdout, p.stderr
    except subprocess.TimeoutExpired as e:
        out = e.stdout.decode(errors="replace") if isinstance(e.stdout, bytes) else (e.stdout or "")
        err = e.stderr.decode(errors="replace") if isinstance(e.stderr, bytes) else (e.stderr or "")
        return None, out, err


FAIL_RE = re.compile(r"^FAIL seed=(\d+) class=(\S+) file=(\S+) msg=(.*)$", re.M)
SUMMARY_RE = re.compile(r"^SUMMARY (\{.*\})$", re.M)


def parse_fail_file(path):
    d = {"log_tail": []}
    try:
        with open(path, errors="replace") as f:
            txt = f.read()
    except OSError:
        return d
    head, _, log = txt.partition("\nlog:\n")
    for line in head.split("\n"):
        k, _, v = line.partition("=")
        d[k] = v
    d["decisions"] = [[int(a), int(b)] for a, b in re.findall(r"(\d+):(-?\d+)", d.pop("dec", ""))]
    d["drop"] = [int(x) for x in d.get("drop", "").split(",") if x.strip()]
    d["seed"] = int(d.get("seed", "0"))
    d["log_tail"] = log.strip().split("\n")[-60:] if log.strip() else []
    return d


def shard_runs(binary, total, seed0, args, wd, timeout, tag="s"):
    """Run `total` seeds starting at seed0 across all cores.  Returns list of shard dicts."""
    n = nproc()
    cs = cpus()
    per = (total + n - 1) // n
    jobs = []
    for i in range(n):
        lo = i * per
        cnt = min(per, total - lo)
        if cnt <= 0:
            break
        jobs.append((i, seed0 + lo, cnt))

    def one(job):
        i, s, cnt = job
        # the shard stops starting new cases after 60% of its wall-clock limit and reports what it completed (a shard killed by the
        # limit would report nothing and count as a harness failure); the budget never changes what happens inside a case
        cmd = [binary, "--seed", str(s), "--n", str(cnt), "--faildir", wd, "--budget", str(int(min(timeout * 0.6, float(os.environ.get("VERIF_BUDGET_S", "1e9")))))] + list(args)
        t0 = time.time()
        rc, out, err = run_proc(cmd, timeout, cpu=cs[i % len(cs)])
        res = {"shard": i, "seed0": s, "n": cnt, "rc": rc, "wall": time.time() - t0, "summary": None, "fails": [], "stderr": err[-6000:], "cmd": cmd}
        m = SUMMARY_RE.search(out)
        if m:
            try:
                res["summary"] = json.loads(m.group(1))
            except ValueError:
                pass
        for fm in FAIL_RE.finditer(out):
            res["fails"].append({"seed": int(fm.group(1)), "class": fm.group(2), "file": fm.group(3), "msg": fm.group(4)})
        res["stdout_tail"] = out[-2000:]
        return res

    with cf.ThreadPoolExecutor(len(jobs) or 1) as ex:
        return list(ex.map(one, jobs))


def merge_summaries(shards):
    tot = {}
    for sh in shards:
        s = sh.get("summary")
        if not s:
            continue
        for k, v in s.items():
            if isinstance(v, (int, float)):
                if k.startswith("max_"):
                    tot[k] = max(tot.get(k, 0), v)
                else:
                    tot[k] = tot.get(k, 0) + v
            elif isinstance(v, dict):
                d = tot.setdefault(k, {})
                for kk, vv in v.items():
                    d[kk] = d.get(kk, 0) + vv
            elif isinstance(v, list):
                l = tot.setdefault(k, [0] * len(v))
                for i, vv in enumerate(v):
                    l[i] += vv
    return tot


# ---------------------------------------------------------------------------- replay files
def write_replay(prop, rec):
    os.makedirs(REPLAYS, exist_ok=True)
    cls = re.sub(r"[^A-Za-z0-9_.:+-]", "_", str(rec.get("class", "x")))[:80]     # class names may carry call names with '/' etc.
    path = os.path.join(REPLAYS, "%s_%s_%s.json" % (prop, cls, rec.get("seed", 0)))
    with open(path, "w") as f:
        json.dump(rec, f, indent=1)
    return path


def e1_replay_cmd(binary, rec, wd, log=False):
    cmd = [binary, "--seed", str(rec["seed"]), "--n", "1", "--faildir", wd]
    if rec.get("cfg"):
        cmd += ["--cfg", rec["cfg"]]
    if rec.get("drop"):
        cmd += ["--drop", ",".join(str(x) for x in rec["drop"])]
    if rec.get("decisions") is not None:
        decf = os.path.join(wd, "dec_%d_%d.txt" % (os.getpid(), int(time.time() * 1e6) % 10**9))
        with open(decf, "w") as f:
            f.write(" ".join("%d:%d" % (a, b) for a, b in rec["decisions"]))
        cmd += ["--dec", decf]
    for k, v in (rec.get("opts") or {}).items():
        cmd += ["--" + k, str(v)]
    if log:
        cmd.append("--log")
    return cmd


def e1_try(binary, rec, wd, timeout=20):
    """Re-run one recorded execution in a fresh process.  Returns the failure class or None."""
    rc, out, err = run_proc(e1_replay_cmd(binary, rec, wd), timeout)
    if rc is None:
        return "timeout", out, err
    m = FAIL_RE.search(out)
    if m:
        return m.group(2), out, err
    if rc == 66:
        return "race", out, err
    if rc != 0:
        return "exit%d" % rc, out, err
    return None, out, err


def ddmin(items, test, budget=400):
    """Classic ddmin: smallest sublist of items (order kept) for which test(sublist) is True."""
    n = 2
    calls = 0
    while len(items) >= 2 and calls < budget:
        chunk = max(1, len(items) // n)
        subsets = [items[i:i + chunk] for i in range(0, len(items), chunk)]
        reduced = False
        for i in range(len(subsets)):
            comp = [x for j, s in enumerate(subsets) if j != i for x in s]
            calls += 1
            if test(comp):
                items = comp
                n = max(n - 1, 2)
                reduced = True
                break
            if calls >= budget:
                break
        if not reduced:
            if n >= len(items):
                break
            n = min(len(items), n * 2)
    if len(items) == 1 and calls < budget and test([]):
        items = []
    return items


def e1_minimise(binary, rec, wd, nops=16, budget=300):
    """Shrink scenario ops (via drop list) and the decision list while the same class persists."""
    cls = rec["class"]
    t_end = time.time() + 60

    def holds(r):
        if time.time() > t_end:
            return False
        c, _, _ = e1_try(binary, r, wd)
        return c == cls

    base = dict(rec)
    if not holds(base):
        rec["minimised"] = False
        rec["replay_reproduces"] = False
        return rec
    # 1. drop scenario ops: scheduling decisions are tied to the scenario, so shrink ops under PRNG
    #    scheduling only when the failure survives without the decision list
    free = dict(base)
    free["decisions"] = None
    keep = [i for i in range(nops) if i not in set(base.get("drop") or [])]
    if holds(free):
        def t_ops(sub):
            r = dict(free)
            r["drop"] = sorted(set(range(nops)) - set(sub))
            return holds(r)
        keep = ddmin(keep, t_ops, budget // 3)
        free["drop"] = sorted(set(range(nops)) - set(keep))
        # re-record the decision list of the shrunk scenario
        rc, out, err = run_proc(e1_replay_cmd(binary, free, wd), 60)
        m = FAIL_RE.search(out)
        if m:
            ff = parse_fail_file(m.group(3))
            base = dict(base)
            base["drop"] = free["drop"]
            base["decisions"] = ff.get("decisions", [])
            base["scenario"] = ff.get("scenario", base.get("scenario"))
            base["msg"] = ff.get("msg", base.get("msg"))
            base["log_tail"] = ff.get("log_tail", [])
    # 2. drop decisions ("stay on the current thread" / default choice instead)
    dec = base.get("decisions") or []
    if dec and holds(base):
        def t_dec(sub):
            r = dict(base)
            r["decisions"] = sub
            return holds(r)
        base["decisions"] = ddmin(dec, t_dec, budget)
    base["minimised"] = True
    base["replay_reproduces"] = holds(base) if time.time() < t_end else True
    # refresh the human-readable log of the minimised run
    rc, out, err = run_proc(e1_replay_cmd(binary, base, wd), 60)
    m = FAIL_RE.search(out)
    if m:
        ff = parse_fail_file(m.group(3))
        base["log_tail"] = ff.get("log_tail", [])
        base["msg"] = ff.get("msg", base.get("msg"))
    if err.strip():
        base["stderr_tail"] = err[-3000:]
    return base


# ---------------------------------------------------------------------------- known findings
def load_known():
    try:
        with open(KNOWN) as f:
            return json.load(f)
    except (OSError, ValueError):
        return {"findings": [], "fixed": []}


class _Known(dict):
    """known findings of one property; keys ending in '*' match by prefix"""

    def match(self, key):
        if dict.__contains__(self, key):
            return dict.__getitem__(self, key)
        for k, v in self.items():
            if k.endswith("*") and str(key).startswith(k[:-1]):
                return v
        return None

    def __contains__(self, key):
        return self.match(key) is not None

    def __getitem__(self, key):
        m = self.match(key)
        if m is None:
            raise KeyError(key)
        return m


def known_keys(prop):
    return _Known({f["key"]: f for f in load_known().get("findings", []) if f.get("property") == prop})


# ---------------------------------------------------------------------------- evidence
def write_evidence(prop, tier, level, coverage, wall, violations, assumptions, extra=None):
    os.makedirs(EVIDENCE, exist_ok=True)
    ev = {
        "property_id": prop,
        "tier": tier,
        "seed": base_seed(),
        "level": level,
        "coverage": coverage,
        "assumptions": assumptions,
        "wall_s": round(wall, 2),
        "violations": violations,
    }
    if extra:
        ev.update(extra)
    tmp = os.path.join(EVIDENCE, "%s.json.tmp" % prop)
    with open(tmp, "w") as f:
        json.dump(ev, f, indent=1, sort_keys=False)
    os.replace(tmp, os.path.join(EVIDENCE, "%s.json" % prop))


REAL_STUB = {
    "real_code": ["src/engine/* (all C and C++ TUs, current working tree)", "src/user/*", "src/xml/* (reader, writer, schema tables)"],
    "stubs": ["tinyxml2 (DOM stand-in, /verif/stubs/tinyxml2.*)", "qhull (fails: convex hulls unavailable)", "libccd (MPR: no penetration; native GJK/EPA path is real)",
              "lodepng (decode fails)", "MarchingCubes (empty mesh)"],
    "not_built": ["plugins", "OBJ/STL decoders", "rendering", "simulate", "python bindings", "MJX"],
}


def merge_evidence(prop, evs, rule, t0):
    """one evidence file for a property whose check has several runners: the last record plus the others' stages"""
    evs = [e for e in evs if e]
    if len(evs) < 2:
        return
    ev = evs[-1]
    cov = ev["coverage"]
    cov["rule"] = rule
    for o in evs[:-1]:
        oc = o["coverage"]
        cov["evaluations"] = int(cov.get("evaluations", 0)) + int(oc.get("evaluations", 0))
        cov["distinct_nontrivial"] = int(cov.get("distinct_nontrivial", 0)) + int(oc.get("distinct_nontrivial", 0))
        cov["stages"] = oc.get("stages", []) + cov.get("stages", [])
        cov["samples"] = (oc.get("samples", []) + cov.get("samples", []))[:3]
        fc = dict(oc.get("failure_classes_seen", {}))
        fc.update(cov.get("failure_classes_seen", {}))
        cov["failure_classes_seen"] = fc
        ev["violations"] = int(ev.get("violations", 0)) + int(o.get("violations", 0))
        hp = (o.get("harness_problems") or []) + (ev.get("harness_problems") or [])
        if hp:
            ev["harness_problems"] = hp
    ev["wall_s"] = round(time.time() - t0, 2)
    cov["runs_per_hour"] = int(cov["evaluations"] / max(ev["wall_s"], 1e-9) * 3600)
    with open(os.path.join(EVIDENCE, "%s.json" % prop), "w") as f:
        json.dump(ev, f, indent=1)


def load_evidence(prop):
    try:
        with open(os.path.join(EVIDENCE, "%s.json" % prop)) as f:
            return json.load(f)
    except (OSError, ValueError):
        return None
