"""C01: simulation is a deterministic function of the integration state (E3: seeded histories, twins, volatile-state poison)."""
import nat

RULE = ("one case = one seed = (generated model [forest of free/ball/hinge/slide bodies, contacts, equalities, tendons, actuators with "
        "activation, sensors, mocap, keyframes, seeded integrator/solver/cone/jacobian/island/sleep options; 12% of the cases with the arena shrunk to 0.9-1.5 x the measured need] or a repo model that loads "
        "under the stub build) x (history of 6-40 ops: set ctrl / applied forces / mocap / equality toggles, step, forward, inverse, reset, "
        "reset-to-keyframe) x (twins manufactured at seeded points by copyData into new or used instance, copyState/setState into fresh, "
        "reset or used-and-poisoned instance, or replay of the whole call log); every fresh instance's arena is pre-filled with seeded "
        "garbage; non-trivial = at least one bitwise comparison after a compute call; distinct = hash of (model summary, routes, compared ops)")
ASSUME = [
    "comparisons are bitwise and only between executions of the same binary in the same process",
    "with the sleep flag on only full-copy and replay routes are used (documented: sleep state is not part of the state vector)",
    "mj_inverse is always preceded by mj_forward on both instances: qacc is an input of inverse dynamics and not part of the integration state",
    "state-only routes compare every mjData array except a documented list of lazily / conditionally computed arrays and count-limited arrays (hist.h: conditional_fields); warning counters are compared only on full-copy routes",
    "plugins are not built: plugin state is not exercised",
]


def run(tier):
    n = 6000 if tier == "quick" else 600000
    plan = [dict(variant="plain", runs=n, label="plain", timeout=300 if tier == "quick" else 3400)]
    return nat.run_native("C01", tier, "c01.cc", plan, "exploration", RULE, ASSUME, nops=40, nmodel=80)
