#!/usr/bin/env python3
"""vbuild: compile /repo's own engine/user/xml sources (current working tree) into
per-variant static libraries, against the stand-ins in /verif/stubs, without CMake.

Object cache key = sha256(flags, source bytes, hash of every header that may be included).
An edited file is recompiled; a header edit recompiles the variant.  Cache writes are
atomic (temp + rename) and the variant directory is flock'ed.

Usage:  build.py [--all | variant ...]   -> builds libraries
        import build; build.lib(variant); build.driver(variant, src, name, extra=[])
"""
import concurrent.futures as cf
import fcntl
import glob
import hashlib
import os
import subprocess
import sys
import time

VERIF = os.path.dirname(os.path.dirname(os.path.abspath(__file__)))
REPO = os.environ.get("VERIF_REPO", "/repo")
BUILD = os.environ.get("VERIF_BUILD", os.path.join(VERIF, "build"))
STUBS = os.path.join(VERIF, "stubs")
VSIM = os.path.join(VERIF, "vsim")
JOBS = int(os.environ.get("VERIF_JOBS", "16"))

INC = ["-I%s/include" % REPO, "-I%s/src" % REPO, "-I" + STUBS, "-I" + VSIM]
DEFS = ["-D_GNU_SOURCE", "-DCCD_STATIC_DEFINE", "-DMJ_STATIC", "-mavx", "-fPIC", "-g1",
        "-fno-omit-frame-pointer", "-w"]

SIMCOV = ["-fsanitize-coverage=trace-pc-guard"]
SIMLS = ["-fsanitize-coverage=trace-pc-guard,trace-loads,trace-stores"]

VARIANTS = {
    # name: (cc, cxx, common flags, c-only flags, c++-only flags)
    "plain": ("gcc", "g++", ["-O2"], [], []),
    "asan": ("clang", "clang++",
             ["-O1", "-fsanitize=address,undefined", "-fno-sanitize-recover=undefined",
              "-fno-sanitize=vptr,function,float-divide-by-zero,nonnull-attribute,pointer-overflow,signed-integer-overflow"], [], []),
    "sim": ("clang", "clang++", ["-O1"] + SIMCOV,
            ["-include", VSIM + "/cprelude.h"], ["-include", VSIM + "/prelude.h"]),
    "simls": ("clang", "clang++", ["-O1"] + SIMLS,
              ["-include", VSIM + "/cprelude.h"], ["-include", VSIM + "/prelude.h"]),
    "simtsan": ("clang", "clang++", ["-O1", "-fsanitize=thread", "-DVSIM_TSAN=1"] + SIMCOV,
                ["-include", VSIM + "/cprelude.h"], ["-include", VSIM + "/prelude.h"]),
    "simasan": ("clang", "clang++", ["-O1", "-fsanitize=address"] + SIMCOV,
                ["-include", VSIM + "/cprelude.h"], ["-include", VSIM + "/prelude.h"]),
}
CSTD = ["-std=gnu11"]
CXXSTD = ["-std=c++20", "-DMC_IMPLEM_ENABLE"]


def repo_sources():
    srcs = []
    for pat in ("src/engine/*.c", "src/engine/*.cc", "src/user/*.c", "src/user/*.cc",
                "src/xml/*.cc"):
        srcs += sorted(glob.glob(os.path.join(REPO, pat)))
    return srcs


def stub_sources():
    return [os.path.join(STUBS, "tinyxml2.cpp"), os.path.join(STUBS, "ccd_stub.c")]


def _norm(s):
    """cache keys do not depend on where the repo / verif trees live"""
    return s.replace(REPO, "$REPO").replace(BUILD, "$BUILD").replace(VERIF, "$VERIF")


def _hash_files(paths):
    h = hashlib.sha256()
    for p in sorted(paths):
        h.update(_norm(p).encode())
        try:
            with open(p, "rb") as f:
                h.update(f.read())
        except OSError:
            h.update(b"<missing>")
    return h.hexdigest()


def header_hash():
    hs = []
    for root in (REPO + "/include", REPO + "/src/engine", REPO + "/src/user", REPO + "/src/xml",
                 REPO + "/src/cc", STUBS, VSIM):
        for dp, dn, fn in os.walk(root):
            for f in fn:
                if f.endswith((".h", ".inc", ".hpp")):
                    hs.append(os.path.join(dp, f))
    return _hash_files(hs)


def _flags(variant, src):
    cc, cxx, common, conly, cxxonly = VARIANTS[variant]
    is_c = src.endswith(".c")
    if is_c:
        return [cc] + CSTD + common + conly + DEFS + INC
    return [cxx] + CXXSTD + common + cxxonly + DEFS + INC


def _objname(src):
    base = os.path.basename(src)
    tag = "r_" if src.startswith(REPO) else "s_"
    return tag + base.replace(".", "_") + ".o"


def _compile_one(variant, src, objdir, hh, extra=()):
    cmd = _flags(variant, src) + list(extra)
    with open(src, "rb") as f:
        sb = f.read()
    key = hashlib.sha256((_norm(" ".join(cmd)) + "\0" + hh + "\0").encode() + sb).hexdigest()
    obj = os.path.join(objdir, _objname(src))
    keyf = obj + ".key"
    try:
        if os.path.exists(obj) and open(keyf).read() == key:
            return obj, False, ""
    except OSError:
        pass
    tmp = obj + ".tmp%d" % os.getpid()
    p = subprocess.run(cmd + ["-c", src, "-o", tmp], capture_output=True, text=True)
    if p.returncode != 0:
        try:
            os.unlink(tmp)
        except OSError:
            pass
        return None, True, "COMPILE FAILED: %s\n%s" % (" ".join(cmd + ["-c", src]), p.stderr[-4000:])
    os.replace(tmp, obj)
    with open(keyf + ".tmp", "w") as f:
        f.write(key)
    os.replace(keyf + ".tmp", keyf)
    return obj, True, ""


class BuildError(Exception):
    pass


def lib(variant, quiet=True):
    """Build (or refresh) the library for `variant`; returns path to the .a"""
    vdir = os.path.join(BUILD, variant)
    objdir = os.path.join(vdir, "obj")
    os.makedirs(objdir, exist_ok=True)
    lockf = open(os.path.join(vdir, ".lock"), "w")
    fcntl.flock(lockf, fcntl.LOCK_EX)
    try:
        t0 = time.time()
        hh = header_hash()
        srcs = repo_sources() + stub_sources()
        objs, rebuilt, errs = [], 0, []
        with cf.ThreadPoolExecutor(JOBS) as ex:
            for obj, did, err in ex.map(lambda s: _compile_one(variant, s, objdir, hh), srcs):
                if err:
                    errs.append(err)
                else:
                    objs.append(obj)
                    rebuilt += did
        if errs:
            raise BuildError("\n".join(errs))
        libp = os.path.join(vdir, "libmujoco.a")
        stamp = _hash_files(objs)
        stampf = libp + ".stamp"
        if rebuilt or not os.path.exists(libp) or not os.path.exists(stampf) or open(stampf).read() != stamp:
            tmp = libp + ".tmp%d" % os.getpid()
            if os.path.exists(tmp):
                os.unlink(tmp)
            subprocess.run(["ar", "rcs", tmp] + objs, check=True)
            os.replace(tmp, libp)
            with open(stampf, "w") as f:
                f.write(stamp)
        if not quiet:
            print("vbuild %s: %d objects, %d recompiled, %.1fs" % (variant, len(objs), rebuilt, time.time() - t0))
        return libp
    finally:
        fcntl.flock(lockf, fcntl.LOCK_UN)
        lockf.close()


RUNTIME_FLAGS = ["-O2", "-g1", "-fPIC", "-std=c++20", "-fno-omit-frame-pointer", "-w"]


def runtime(variant):
    """vsim runtime object, compiled WITHOUT sanitizers / coverage (invisible to TSan)."""
    vdir = os.path.join(BUILD, variant)
    os.makedirs(vdir, exist_ok=True)
    src = os.path.join(VSIM, "vsim_rt.cc")
    obj = os.path.join(vdir, "vsim_rt.o")
    key = _hash_files([src, os.path.join(VSIM, "vsim_rt.h")]) + variant
    keyf = obj + ".key"
    if os.path.exists(obj) and os.path.exists(keyf) and open(keyf).read() == key:
        return obj
    extra = ["-DVSIM_TSAN=1"] if variant == "simtsan" else []
    tmp = obj + ".tmp%d" % os.getpid()
    p = subprocess.run(["clang++"] + RUNTIME_FLAGS + extra + ["-I" + VSIM, "-c", src, "-o", tmp],
                       capture_output=True, text=True)
    if p.returncode:
        raise BuildError(p.stderr)
    os.replace(tmp, obj)
    with open(keyf, "w") as f:
        f.write(key)
    return obj


def gen_headers():
    """Struct member lists for field-wise comparison, generated from the working tree's mjdata.h so that
    adding or renaming a member neither breaks nor blinds a check."""
    import re
    gdir = os.path.join(BUILD, "gen")
    os.makedirs(gdir, exist_ok=True)
    txt = open(os.path.join(REPO, "include/mujoco/mjdata.h")).read()
    out = ["// generated by vbuild from include/mujoco/mjdata.h", "#pragma once"]
    for st in ("mjContact", "mjWarningStat", "mjTimerStat", "mjSolverStat"):
        m = re.search(r"struct\s+%s_\s*\{(.*?)\}\s*%s\s*;" % (st, st), txt, re.S)
        names = []
        if m:
            for line in m.group(1).split("\n"):
                line = line.split("//")[0].strip()
                mm = re.match(r"^[A-Za-z_][A-Za-z0-9_ \*]*?\b([A-Za-z_][A-Za-z0-9_]*)\s*(\[[^;]*\])?\s*;$", line)
                if mm:
                    names.append(mm.group(1))
        out.append("#define VGEN_%s_FIELDS %s" % (st.upper(), " ".join("X(%s)" % n for n in names)))
    new = "\n".join(out) + "\n"
    path = os.path.join(gdir, "structs_gen.h")
    if not os.path.exists(path) or open(path).read() != new:
        with open(path + ".tmp", "w") as f:
            f.write(new)
        os.replace(path + ".tmp", path)
    return gdir


def driver(variant, src, name=None, extra_src=(), link_lib=True, extra_flags=()):
    """Compile a harness source with the variant's flags and link it with the library."""
    extra_flags = list(extra_flags) + ["-I" + gen_headers()]
    vdir = os.path.join(BUILD, variant)
    os.makedirs(vdir, exist_ok=True)
    name = name or os.path.splitext(os.path.basename(src))[0]
    out = os.path.join(vdir, name)
    libp = lib(variant) if link_lib else None
    cc, cxx, common, conly, cxxonly = VARIANTS[variant]
    srcs = [src] + list(extra_src)
    deps = srcs + glob.glob(os.path.join(VERIF, "drivers", "*.h")) + ([libp] if libp else [])
    sim = variant.startswith("sim")
    rt = runtime(variant) if sim else None
    key = _hash_files(deps + ([rt] if rt else []) + [os.path.join(BUILD, "gen", "structs_gen.h")]) + header_hash() + _norm(" ".join(extra_flags)) + variant
    keyf = out + ".key"
    if os.path.exists(out) and os.path.exists(keyf) and open(keyf).read() == key:
        return out
    objs = []
    for s in srcs:
        o = os.path.join(vdir, "drv_%s_%s.o" % (name, os.path.basename(s).replace(".", "_")))
        cmd = _flags(variant, s) + list(extra_flags) + ["-I" + os.path.join(VERIF, "drivers"), "-c", s, "-o", o]
        p = subprocess.run(cmd, capture_output=True, text=True)
        if p.returncode:
            raise BuildError("DRIVER COMPILE FAILED: %s\n%s" % (" ".join(cmd), p.stderr[-6000:]))
        objs.append(o)
    link = [cxx] + common + objs + ([rt] if rt else []) + ([libp] if libp else []) + ["-lpthread", "-lm", "-ldl"]
    tmp = out + ".tmp%d" % os.getpid()
    p = subprocess.run(link + ["-o", tmp], capture_output=True, text=True)
    if p.returncode:
        raise BuildError("DRIVER LINK FAILED: %s\n%s" % (" ".join(link), p.stderr[-6000:]))
    os.replace(tmp, out)
    with open(keyf, "w") as f:
        f.write(key)
    return out


def main(argv):
    vs = [a for a in argv if not a.startswith("-")]
    if "--all" in argv or not vs:
        vs = ["plain", "asan", "sim", "simtsan", "simls"]
    ok = True
    with cf.ThreadPoolExecutor(3) as ex:
        futs = {v: ex.submit(lib, v, False) for v in vs}
        for v, f in futs.items():
            try:
                f.result()
            except BuildError as e:
                ok = False
                print("vbuild %s FAILED\n%s" % (v, e))
    return 0 if ok else 2


if __name__ == "__main__":
    sys.exit(main(sys.argv[1:]))
