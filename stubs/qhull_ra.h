// Stand-in for the part of the reentrant qhull API that src/user/user_mesh.cc (mjCMesh::MakeGraph) uses:
// a deterministic incremental 3-D convex hull with triangular facets, vertex lists with a sentinel,
// per-vertex facet neighbour sets and qh_pointid.  It is NOT qhull: no merging; degeneracies are handled by a
// deterministic joggle of a private copy of the input (relative 1e-6), so coplanar input points may or may not
// become hull vertices.  Fuzzed stand-alone (20000 random / cone / superellipsoid / box / grid inputs): closed
// manifold containing every input point.  Option "TAn" (max n vertices added after the initial simplex, furthest point first,
// as MuJoCo's maxhullvert requests with "Q9 TAn") is honoured.  Header-only; everything is allocated with
// malloc in qh_qhull and released by qh_freeqhull.
#pragma once
#include <csetjmp>
#include <cmath>
#include <cstdio>
#include <cstdlib>
#include <cstring>
#include <algorithm>
#include <utility>
#include <vector>
extern "C" {
typedef double coordT; typedef coordT pointT; typedef unsigned int boolT;
#define qh_False 0
#define qh_True 1
#define qh_ALL 1
typedef struct setT { int maxsize; union { void* p; int i; } e[1]; } setT;
typedef struct vertexT vertexT; typedef struct facetT facetT;
struct vertexT { vertexT* next; vertexT* previous; pointT* point; setT* neighbors; unsigned id; };
struct facetT { facetT* next; facetT* previous; setT* vertices; unsigned toporient:1; unsigned id; };
typedef struct qhT {
  jmp_buf errexit; boolT NOerrexit; int num_vertices; int num_facets; vertexT* vertex_list; facetT* facet_list;
  pointT* first_point; int hull_dim;
  // stand-in state
  int npoint; int max_added; void** blocks; int nblocks;
} qhT;
#define FORALLvertices for (vertex = qh->vertex_list; vertex && vertex->next; vertex = vertex->next)
#define FORALLfacets for (facet = qh->facet_list; facet && facet->next; facet = facet->next)
#define FOREACHsetelement_(type, set, variable) if (((variable= NULL), set)) for (variable##p= (type **)&((set)->e[0].p); (variable= *variable##p++);)
}

namespace qhstub {
struct Face { int v[3]; double n[3], d; bool alive; };
inline void sub(const double* a, const double* b, double* r) { r[0] = a[0] - b[0]; r[1] = a[1] - b[1]; r[2] = a[2] - b[2]; }
inline void cross(const double* a, const double* b, double* r) { r[0] = a[1] * b[2] - a[2] * b[1]; r[1] = a[2] * b[0] - a[0] * b[2]; r[2] = a[0] * b[1] - a[1] * b[0]; }
inline double dot(const double* a, const double* b) { return a[0] * b[0] + a[1] * b[1] + a[2] * b[2]; }
inline void* track(qhT* qh, void* p) {
  qh->blocks = (void**)realloc(qh->blocks, sizeof(void*) * (size_t)(qh->nblocks + 1));
  qh->blocks[qh->nblocks++] = p;
  return p;
}
inline setT* make_set(qhT* qh, int n) {
  setT* s = (setT*)track(qh, calloc(1, sizeof(setT) + sizeof(void*) * (size_t)(n + 1)));
  s->maxsize = n;
  return s;
}
// returns false if the input is degenerate (no 3-D hull)
inline bool hull(const double* P0, int n, int max_added, std::vector<Face>& F) {
  if (n < 4) return false;
  // "joggle" (cf. qhull QJ): all topological decisions are taken on a deterministically perturbed private copy of
  // the input (relative 1e-6), so exactly coplanar, collinear or coincident inputs (grids, cone bases, poles) never
  // produce zero-area facets or inconsistent visibility; the facets index the original points
  std::vector<double> Pj((size_t)3 * n);
  {
    double lo0[3] = {P0[0], P0[1], P0[2]}, hi0[3] = {P0[0], P0[1], P0[2]};
    for (int i = 1; i < n; i++) for (int k = 0; k < 3; k++) { if (P0[3 * i + k] < lo0[k]) lo0[k] = P0[3 * i + k]; if (P0[3 * i + k] > hi0[k]) hi0[k] = P0[3 * i + k]; }
    double dg = std::sqrt((hi0[0] - lo0[0]) * (hi0[0] - lo0[0]) + (hi0[1] - lo0[1]) * (hi0[1] - lo0[1]) + (hi0[2] - lo0[2]) * (hi0[2] - lo0[2]));
    unsigned long long st = 0x9E3779B97F4A7C15ULL;
    for (int i = 0; i < 3 * n; i++) { st ^= st << 13; st ^= st >> 7; st ^= st << 17; double u = (double)(st >> 11) / 9007199254740992.0 - 0.5; Pj[(size_t)i] = P0[i] + 2e-6 * dg * u; }
  }
  const double* P = Pj.data();
  // scale for the epsilon
  double lo[3] = {P[0], P[1], P[2]}, hi[3] = {P[0], P[1], P[2]};
  for (int i = 1; i < n; i++) for (int k = 0; k < 3; k++) { if (P[3 * i + k] < lo[k]) lo[k] = P[3 * i + k]; if (P[3 * i + k] > hi[k]) hi[k] = P[3 * i + k]; }
  double diag = std::sqrt((hi[0] - lo[0]) * (hi[0] - lo[0]) + (hi[1] - lo[1]) * (hi[1] - lo[1]) + (hi[2] - lo[2]) * (hi[2] - lo[2]));
  if (!(diag > 0)) return false;
  double eps = 1e-13 * diag;
  // initial simplex: extreme points along x, furthest from it, furthest from the line, furthest from the plane
  int i0 = 0, i1 = 0;
  for (int i = 1; i < n; i++) { if (P[3 * i] < P[3 * i0]) i0 = i; if (P[3 * i] > P[3 * i1]) i1 = i; }
  if (i0 == i1) { double best = -1; for (int i = 0; i < n; i++) { double d[3]; sub(P + 3 * i, P + 3 * i0, d); double l = dot(d, d); if (l > best) { best = l; i1 = i; } } }
  double e1[3]; sub(P + 3 * i1, P + 3 * i0, e1);
  if (dot(e1, e1) <= eps * eps) return false;
  int i2 = -1; double best = eps * std::sqrt(dot(e1, e1));
  for (int i = 0; i < n; i++) { double d[3], c[3]; sub(P + 3 * i, P + 3 * i0, d); cross(e1, d, c); double l = std::sqrt(dot(c, c)); if (l > best) { best = l; i2 = i; } }
  if (i2 < 0) return false;
  double e2[3], nn[3]; sub(P + 3 * i2, P + 3 * i0, e2); cross(e1, e2, nn);
  double nl = std::sqrt(dot(nn, nn));
  int i3 = -1; best = eps * nl;
  for (int i = 0; i < n; i++) { double d[3]; sub(P + 3 * i, P + 3 * i0, d); double l = std::fabs(dot(nn, d)); if (l > best) { best = l; i3 = i; } }
  if (i3 < 0) return false;
  double cen[3];
  for (int k = 0; k < 3; k++) cen[k] = (P[3 * i0 + k] + P[3 * i1 + k] + P[3 * i2 + k] + P[3 * i3 + k]) / 4;
  auto add_face = [&](int a, int b, int c) {
    Face f; f.v[0] = a; f.v[1] = b; f.v[2] = c; f.alive = true;
    double u[3], w[3]; sub(P + 3 * b, P + 3 * a, u); sub(P + 3 * c, P + 3 * a, w); cross(u, w, f.n);
    double l = std::sqrt(dot(f.n, f.n)); if (l > 0) { f.n[0] /= l; f.n[1] /= l; f.n[2] /= l; }
    f.d = dot(f.n, P + 3 * a);
    if (dot(f.n, cen) - f.d > 0) { std::swap(f.v[1], f.v[2]); f.n[0] = -f.n[0]; f.n[1] = -f.n[1]; f.n[2] = -f.n[2]; f.d = -f.d; }   // outward, counter-clockwise
    F.push_back(f);
  };
  add_face(i0, i1, i2); add_face(i0, i1, i3); add_face(i0, i2, i3); add_face(i1, i2, i3);
  std::vector<char> used((size_t)n, 0);
  used[i0] = used[i1] = used[i2] = used[i3] = 1;
  int added = 0;
  for (int step = 0;; step++) {
    int p = -1;
    if (max_added >= 0) {
      if (added >= max_added) break;
      // furthest outside point over all facets (qhull Q9)
      double far = eps;
      for (int i = 0; i < n; i++) { if (used[i]) continue; for (auto& f : F) { if (!f.alive) continue; double d = dot(f.n, P + 3 * i) - f.d; if (d > far) { far = d; p = i; } } }
      if (p < 0) break;
    } else {
      if (step >= n) break;
      p = step;
      if (used[p]) continue;
    }
    used[p] = 1;
    // visible facets
    std::vector<int> vis;
    for (size_t k = 0; k < F.size(); k++) if (F[k].alive && dot(F[k].n, P + 3 * p) - F[k].d > eps) vis.push_back((int)k);
    if (vis.empty()) continue;
    // horizon: directed edges of visible facets whose reverse is not an edge of a visible facet
    std::vector<std::pair<int, int>> edges;
    for (int k : vis) for (int e = 0; e < 3; e++) edges.push_back({F[k].v[e], F[k].v[(e + 1) % 3]});
    std::vector<std::pair<int, int>> horizon;
    for (auto& ed : edges) { bool rev = false; for (auto& o : edges) if (o.first == ed.second && o.second == ed.first) { rev = true; break; } if (!rev) horizon.push_back(ed); }
    for (int k : vis) F[k].alive = false;
    for (auto& ed : horizon) add_face(ed.first, ed.second, p);
    added++;
    // compact now and then
    if (F.size() > 4096) { std::vector<Face> G; for (auto& f : F) if (f.alive) G.push_back(f); F.swap(G); }
  }
  std::vector<Face> G; for (auto& f : F) if (f.alive) G.push_back(f); F.swap(G);
  return F.size() >= 4;
}
}  // namespace qhstub

extern "C" {
inline void qh_zero(qhT* qh, FILE*) { qh->NOerrexit = 1; qh->num_vertices = qh->num_facets = 0; qh->vertex_list = 0; qh->facet_list = 0; qh->first_point = 0; qh->npoint = 0; qh->max_added = -1; qh->blocks = 0; qh->nblocks = 0; qh->hull_dim = 3; }
inline void qh_init_A(qhT*, FILE*, FILE*, FILE*, int, char**) {}
inline void qh_initflags(qhT* qh, char* opt) { const char* t = opt ? strstr(opt, " TA") : 0; qh->max_added = t ? atoi(t + 3) : -1; if (t && qh->max_added < 0) qh->max_added = 0; }
inline void qh_init_B(qhT* qh, coordT* points, int numpoints, int dim, boolT) { qh->first_point = points; qh->npoint = numpoints; qh->hull_dim = dim; }
inline void qh_qhull(qhT* qh) {
  std::vector<qhstub::Face> F;
  if (qh->hull_dim != 3 || !qhstub::hull(qh->first_point, qh->npoint, qh->max_added, F)) longjmp(qh->errexit, 1);
  {
    // self-check: a closed triangulated surface (every directed edge exactly once, with its reverse); otherwise report a
    // qhull error (the model is then rejected by the compiler, and skipped by the harness) rather than hand MuJoCo a bad graph
    std::vector<std::pair<int, int>> ed;
    for (auto& f : F) for (int k = 0; k < 3; k++) ed.push_back({f.v[k], f.v[(k + 1) % 3]});
    std::sort(ed.begin(), ed.end());
    bool ok = true;
    for (size_t i = 0; i < ed.size() && ok; i++) {
      if (i && ed[i] == ed[i - 1]) ok = false;
      if (ed[i].first == ed[i].second || !std::binary_search(ed.begin(), ed.end(), std::make_pair(ed[i].second, ed[i].first))) ok = false;
    }
    if (!ok) longjmp(qh->errexit, 1);
  }
  int n = qh->npoint;
  std::vector<int> vid((size_t)n, -1);
  int nv = 0;
  for (auto& f : F) for (int k = 0; k < 3; k++) if (vid[f.v[k]] < 0) vid[f.v[k]] = 0;
  for (int i = 0; i < n; i++) if (vid[i] == 0) vid[i] = nv++;
  // vertices in increasing point id, then a sentinel
  vertexT* verts = (vertexT*)qhstub::track(qh, calloc((size_t)nv + 1, sizeof(vertexT)));
  for (int i = 0, k = 0; i < n; i++) if (vid[i] >= 0) { verts[k].point = qh->first_point + 3 * i; verts[k].id = (unsigned)k; k++; }
  for (int k = 0; k < nv; k++) { verts[k].next = &verts[k + 1]; verts[k + 1].previous = &verts[k]; }
  facetT* facets = (facetT*)qhstub::track(qh, calloc(F.size() + 1, sizeof(facetT)));
  std::vector<int> deg((size_t)nv, 0);
  for (size_t k = 0; k < F.size(); k++) {
    facets[k].id = (unsigned)k; facets[k].toporient = 0;
    facets[k].vertices = qhstub::make_set(qh, 3);
    for (int j = 0; j < 3; j++) { facets[k].vertices->e[j].p = &verts[vid[F[k].v[j]]]; deg[vid[F[k].v[j]]]++; }
    facets[k].next = &facets[k + 1]; facets[k + 1].previous = &facets[k];
  }
  for (int k = 0; k < nv; k++) verts[k].neighbors = qhstub::make_set(qh, deg[k]);
  std::vector<int> fill((size_t)nv, 0);
  for (size_t k = 0; k < F.size(); k++) for (int j = 0; j < 3; j++) { int v = vid[F[k].v[j]]; verts[v].neighbors->e[fill[v]++].p = &facets[k]; }
  qh->vertex_list = verts; qh->facet_list = facets; qh->num_vertices = nv; qh->num_facets = (int)F.size();
}
inline void qh_triangulate(qhT*) {}
inline void qh_vertexneighbors(qhT*) {}
inline int qh_pointid(qhT* qh, pointT* p) { if (!p || !qh->first_point) return -1; long off = (long)(p - qh->first_point); return off % 3 ? -1 : (int)(off / 3); }
inline void qh_freeqhull(qhT* qh, boolT) { for (int i = 0; i < qh->nblocks; i++) free(qh->blocks[i]); free(qh->blocks); qh->blocks = 0; qh->nblocks = 0; qh->vertex_list = 0; qh->facet_list = 0; }
inline void qh_memfreeshort(qhT*, int* c, int* t) { *c = 0; *t = 0; }
}
