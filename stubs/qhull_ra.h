#pragma once
#include <csetjmp>
#include <cstdio>
#include <cstdlib>
extern "C" {
typedef double coordT; typedef coordT pointT; typedef unsigned int boolT;
#define qh_False 0
#define qh_True 1
#define qh_ALL 1
typedef struct setT { int maxsize; union { void* p; int i; } e[1]; } setT;
typedef struct vertexT vertexT; typedef struct facetT facetT;
struct vertexT { vertexT* next; vertexT* previous; pointT* point; setT* neighbors; unsigned id; };
struct facetT { facetT* next; facetT* previous; setT* vertices; unsigned toporient:1; unsigned id; };
typedef struct qhT { jmp_buf errexit; boolT NOerrexit; int num_vertices; int num_facets; vertexT* vertex_list; facetT* facet_list; pointT* first_point; int hull_dim; } qhT;
#define FORALLvertices for (vertex = qh->vertex_list; vertex && vertex->next; vertex = vertex->next)
#define FORALLfacets for (facet = qh->facet_list; facet && facet->next; facet = facet->next)
#define FOREACHsetelement_(type, set, variable) if (((variable= NULL), set)) for (variable##p= (type **)&((set)->e[0].p); (variable= *variable##p++);)
inline void qh_zero(qhT* qh, FILE*){ qh->NOerrexit=1; qh->num_vertices=qh->num_facets=0; qh->vertex_list=0; qh->facet_list=0; }
inline void qh_init_A(qhT*, FILE*, FILE*, FILE*, int, char**){}
inline void qh_initflags(qhT*, char*){}
inline void qh_init_B(qhT*, coordT*, int, int, boolT){}
inline void qh_qhull(qhT* qh){ longjmp(qh->errexit, 1); }
inline void qh_triangulate(qhT*){}
inline void qh_vertexneighbors(qhT*){}
inline int qh_pointid(qhT*, pointT*){return -1;}
inline void qh_freeqhull(qhT*, boolT){}
inline void qh_memfreeshort(qhT*, int* c, int* t){*c=0;*t=0;}
}
