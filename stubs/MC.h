#pragma once
#include <vector>
namespace MC { typedef float MC_FLOAT; struct mcVec3f{float x,y,z;}; struct mcMesh{ std::vector<mcVec3f> vertices, normals; std::vector<unsigned int> indices; };
inline void marching_cube(MC_FLOAT*, int, int, int, mcMesh&){} }
