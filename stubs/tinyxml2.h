// Minimal stand-in for the subset of tinyxml2 used by mujoco src/xml (verification stub; prototype)
#ifndef VSTUB_TINYXML2_H
#define VSTUB_TINYXML2_H
#include <cstdio>
#include <cstddef>
#include <string>
#include <vector>
namespace tinyxml2 {
enum XMLError { XML_SUCCESS = 0, XML_NO_ATTRIBUTE, XML_WRONG_ATTRIBUTE_TYPE, XML_ERROR_FILE_NOT_FOUND,
  XML_ERROR_FILE_COULD_NOT_BE_OPENED, XML_ERROR_FILE_READ_ERROR, XML_ERROR_PARSING_ELEMENT, XML_ERROR_PARSING_ATTRIBUTE,
  XML_ERROR_PARSING_TEXT, XML_ERROR_PARSING_CDATA, XML_ERROR_PARSING_COMMENT, XML_ERROR_PARSING_DECLARATION,
  XML_ERROR_PARSING_UNKNOWN, XML_ERROR_EMPTY_DOCUMENT, XML_ERROR_MISMATCHED_ELEMENT, XML_ERROR_PARSING,
  XML_CAN_NOT_CONVERT_TEXT, XML_NO_TEXT_NODE, XML_ELEMENT_DEPTH_EXCEEDED, XML_ERROR_COUNT };
class XMLDocument; class XMLElement; class XMLComment; class XMLText; class XMLDeclaration; class XMLUnknown; class XMLPrinter;
class XMLAttribute {
  friend class XMLElement; friend class XMLDocument; friend class XMLPrinter;
 public:
  const char* Name() const { return name_.c_str(); }
  const char* Value() const { return value_.c_str(); }
  const XMLAttribute* Next() const { return next_; }
  int GetLineNum() const { return line_; }
 private:
  std::string name_, value_; XMLAttribute* next_ = nullptr; int line_ = 0;
};
class XMLNode {
  friend class XMLDocument; friend class XMLElement; friend class XMLPrinter;
 public:
  const XMLDocument* GetDocument() const { return doc_; }
  XMLDocument* GetDocument() { return doc_; }
  virtual XMLElement* ToElement() { return nullptr; }
  virtual const XMLElement* ToElement() const { return nullptr; }
  virtual XMLComment* ToComment() { return nullptr; }
  virtual const XMLComment* ToComment() const { return nullptr; }
  virtual XMLText* ToText() { return nullptr; }
  virtual const XMLText* ToText() const { return nullptr; }
  virtual XMLDocument* ToDocument() { return nullptr; }
  const char* Value() const { return value_.c_str(); }
  void SetValue(const char* v, bool = false) { value_ = v ? v : ""; }
  int GetLineNum() const { return line_; }
  const XMLNode* Parent() const { return parent_; }
  XMLNode* Parent() { return parent_; }
  bool NoChildren() const { return !first_; }
  const XMLNode* FirstChild() const { return first_; }
  XMLNode* FirstChild() { return first_; }
  const XMLNode* LastChild() const { return last_; }
  XMLNode* LastChild() { return last_; }
  const XMLNode* NextSibling() const { return next_; }
  XMLNode* NextSibling() { return next_; }
  const XMLNode* PreviousSibling() const { return prev_; }
  XMLNode* PreviousSibling() { return prev_; }
  const XMLElement* FirstChildElement(const char* name = nullptr) const;
  XMLElement* FirstChildElement(const char* name = nullptr) { return const_cast<XMLElement*>(const_cast<const XMLNode*>(this)->FirstChildElement(name)); }
  const XMLElement* LastChildElement(const char* name = nullptr) const;
  XMLElement* LastChildElement(const char* name = nullptr) { return const_cast<XMLElement*>(const_cast<const XMLNode*>(this)->LastChildElement(name)); }
  const XMLElement* NextSiblingElement(const char* name = nullptr) const;
  XMLElement* NextSiblingElement(const char* name = nullptr) { return const_cast<XMLElement*>(const_cast<const XMLNode*>(this)->NextSiblingElement(name)); }
  const XMLElement* PreviousSiblingElement(const char* name = nullptr) const;
  XMLElement* PreviousSiblingElement(const char* name = nullptr) { return const_cast<XMLElement*>(const_cast<const XMLNode*>(this)->PreviousSiblingElement(name)); }
  XMLNode* InsertEndChild(XMLNode* addThis);
  XMLNode* LinkEndChild(XMLNode* addThis) { return InsertEndChild(addThis); }
  XMLNode* InsertFirstChild(XMLNode* addThis);
  XMLNode* InsertAfterChild(XMLNode* afterThis, XMLNode* addThis);
  void DeleteChildren();
  void DeleteChild(XMLNode* node);
  virtual XMLNode* ShallowClone(XMLDocument* document) const = 0;
  XMLNode* DeepClone(XMLDocument* target) const;
 protected:
  explicit XMLNode(XMLDocument* d) : doc_(d) {}
  virtual ~XMLNode();
  void Unlink(XMLNode* child);
  XMLDocument* doc_; XMLNode* parent_ = nullptr; XMLNode* first_ = nullptr; XMLNode* last_ = nullptr;
  XMLNode* prev_ = nullptr; XMLNode* next_ = nullptr; std::string value_; int line_ = 0;
};
class XMLText : public XMLNode { friend class XMLDocument;
 public: XMLText* ToText() override { return this; } const XMLText* ToText() const override { return this; }
  XMLNode* ShallowClone(XMLDocument* document) const override;
 protected: explicit XMLText(XMLDocument* d) : XMLNode(d) {} };
class XMLComment : public XMLNode { friend class XMLDocument;
 public: XMLComment* ToComment() override { return this; } const XMLComment* ToComment() const override { return this; }
  XMLNode* ShallowClone(XMLDocument* document) const override;
 protected: explicit XMLComment(XMLDocument* d) : XMLNode(d) {} };
class XMLDeclaration : public XMLNode { friend class XMLDocument;
 public: XMLNode* ShallowClone(XMLDocument* document) const override;
 protected: explicit XMLDeclaration(XMLDocument* d) : XMLNode(d) {} };
class XMLUnknown : public XMLNode { friend class XMLDocument;
 public: XMLNode* ShallowClone(XMLDocument* document) const override;
 protected: explicit XMLUnknown(XMLDocument* d) : XMLNode(d) {} };
class XMLElement : public XMLNode { friend class XMLDocument; friend class XMLPrinter;
 public:
  const char* Name() const { return Value(); }
  void SetName(const char* s, bool = false) { SetValue(s); }
  XMLElement* ToElement() override { return this; }
  const XMLElement* ToElement() const override { return this; }
  const char* Attribute(const char* name, const char* value = nullptr) const;
  const XMLAttribute* FirstAttribute() const { return attrs_; }
  const XMLAttribute* FindAttribute(const char* name) const;
  void SetAttribute(const char* name, const char* value);
  void SetAttribute(const char* name, int value);
  void SetAttribute(const char* name, double value);
  void DeleteAttribute(const char* name);
  const char* GetText() const;
  XMLNode* ShallowClone(XMLDocument* document) const override;
 protected:
  explicit XMLElement(XMLDocument* d) : XMLNode(d) {}
  ~XMLElement() override;
  XMLAttribute* attrs_ = nullptr;
};
class XMLDocument : public XMLNode { friend class XMLPrinter;
 public:
  XMLDocument(bool = true, int = 0) : XMLNode(nullptr) { doc_ = this; }
  ~XMLDocument() override { DeleteChildren(); }
  XMLDocument* ToDocument() override { return this; }
  XMLError Parse(const char* xml, size_t nBytes = static_cast<size_t>(-1));
  XMLError LoadFile(const char* filename);
  XMLError SaveFile(const char* filename, bool compact = false);
  void Print(XMLPrinter* streamer = nullptr) const;
  XMLElement* RootElement() { return FirstChildElement(); }
  const XMLElement* RootElement() const { return FirstChildElement(); }
  XMLElement* NewElement(const char* name);
  XMLComment* NewComment(const char* comment);
  XMLText* NewText(const char* text);
  XMLDeclaration* NewDeclaration(const char* text = nullptr);
  XMLUnknown* NewUnknown(const char* text);
  void DeleteNode(XMLNode* node);
  bool Error() const { return err_ != XML_SUCCESS; }
  XMLError ErrorID() const { return err_; }
  const char* ErrorName() const;
  static const char* ErrorIDToName(XMLError e);
  const char* ErrorStr() const { return errstr_.c_str(); }
  int ErrorLineNum() const { return errline_; }
  void ClearError() { err_ = XML_SUCCESS; errstr_.clear(); errline_ = 0; }
  void Clear() { DeleteChildren(); ClearError(); }
  XMLNode* ShallowClone(XMLDocument*) const override { return nullptr; }
 private:
  void SetError(XMLError e, int line, const char* what);
  XMLError err_ = XML_SUCCESS; std::string errstr_; int errline_ = 0;
};
class XMLPrinter {
 public:
  XMLPrinter(FILE* file = nullptr, bool compact = false, int depth = 0) : fp_(file), compact_(compact), depth_(depth) {}
  virtual ~XMLPrinter() {}
  const char* CStr() const { return buf_.c_str(); }
  int CStrSize() const { return static_cast<int>(buf_.size()) + 1; }
  void ClearBuffer() { buf_.clear(); }
  void VisitNode(const XMLNode* n, int depth);
 protected:
  virtual void PrintSpace(int depth) { for (int i = 0; i < depth; ++i) Write("    "); }
  void Write(const char* data) { Write(data, std::char_traits<char>::length(data)); }
  void Write(const char* data, size_t size) { if (fp_) fwrite(data, 1, size, fp_); else buf_.append(data, size); }
  void PrintString(const char* s, bool attr);
 private:
  FILE* fp_; bool compact_; int depth_; std::string buf_;
};
}  // namespace tinyxml2
#endif
