#ifndef VSTUB_CCD_VEC3_H
#define VSTUB_CCD_VEC3_H
#ifdef __cplusplus
extern "C" {
#endif
typedef double ccd_real_t;
typedef struct _ccd_vec3_t { ccd_real_t v[3]; } ccd_vec3_t;
extern ccd_vec3_t* ccd_vec3_origin;
static inline void ccdVec3Set(ccd_vec3_t* v, ccd_real_t x, ccd_real_t y, ccd_real_t z){v->v[0]=x;v->v[1]=y;v->v[2]=z;}
static inline int ccdVec3Eq(const ccd_vec3_t* a, const ccd_vec3_t* b){return a->v[0]==b->v[0]&&a->v[1]==b->v[1]&&a->v[2]==b->v[2];}
#ifdef __cplusplus
}
#endif
#endif
