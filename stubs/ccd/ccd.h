#ifndef VSTUB_CCD_H
#define VSTUB_CCD_H
#include <ccd/vec3.h>
#ifdef __cplusplus
extern "C" {
#endif
typedef void (*ccd_support_fn)(const void*, const ccd_vec3_t*, ccd_vec3_t*);
typedef void (*ccd_first_dir_fn)(const void*, const void*, ccd_vec3_t*);
typedef void (*ccd_center_fn)(const void*, ccd_vec3_t*);
typedef struct _ccd_t {
  ccd_first_dir_fn first_dir; ccd_support_fn support1, support2; ccd_center_fn center1, center2;
  unsigned long max_iterations; ccd_real_t epa_tolerance, mpr_tolerance, dist_tolerance;
} ccd_t;
#define CCD_INIT(c) do{(c)->first_dir=ccdFirstDirDefault;(c)->support1=0;(c)->support2=0;(c)->center1=0;(c)->center2=0;(c)->max_iterations=(unsigned long)-1;(c)->epa_tolerance=1e-4;(c)->mpr_tolerance=1e-4;(c)->dist_tolerance=1e-6;}while(0)
void ccdFirstDirDefault(const void*, const void*, ccd_vec3_t*);
int ccdMPRPenetration(const void*, const void*, const ccd_t*, ccd_real_t*, ccd_vec3_t*, ccd_vec3_t*);
#ifdef __cplusplus
}
#endif
#endif
