#include <ccd/ccd.h>
static ccd_vec3_t origin_ = {{0,0,0}};
ccd_vec3_t* ccd_vec3_origin = &origin_;
void ccdFirstDirDefault(const void* a, const void* b, ccd_vec3_t* d){ccdVec3Set(d,1,0,0);}
int ccdMPRPenetration(const void* a, const void* b, const ccd_t* c, ccd_real_t* depth, ccd_vec3_t* dir, ccd_vec3_t* pos){return -1;}
