// Minimal stand-in for tinyxml2 (verification stub; prototype)
#include "tinyxml2.h"
#include <cstring>
#include <cstdlib>
#include <cctype>
namespace tinyxml2 {
//---------------- node tree
XMLNode::~XMLNode() { DeleteChildren(); }
void XMLNode::Unlink(XMLNode* c) {
  if (c->prev_) c->prev_->next_ = c->next_; else first_ = c->next_;
  if (c->next_) c->next_->prev_ = c->prev_; else last_ = c->prev_;
  c->prev_ = c->next_ = nullptr; c->parent_ = nullptr;
}
void XMLNode::DeleteChildren() { while (first_) { XMLNode* c = first_; Unlink(c); delete c; } }
void XMLNode::DeleteChild(XMLNode* n) { if (!n || n->parent_ != this) return; Unlink(n); delete n; }
XMLNode* XMLNode::InsertEndChild(XMLNode* a) {
  if (!a || a->doc_ != doc_) return nullptr;
  if (a->parent_) a->parent_->Unlink(a);
  a->prev_ = last_; a->next_ = nullptr; if (last_) last_->next_ = a; else first_ = a; last_ = a; a->parent_ = this; return a;
}
XMLNode* XMLNode::InsertFirstChild(XMLNode* a) {
  if (!a || a->doc_ != doc_) return nullptr;
  if (a->parent_) a->parent_->Unlink(a);
  a->next_ = first_; a->prev_ = nullptr; if (first_) first_->prev_ = a; else last_ = a; first_ = a; a->parent_ = this; return a;
}
XMLNode* XMLNode::InsertAfterChild(XMLNode* after, XMLNode* a) {
  if (!a || a->doc_ != doc_ || !after || after->parent_ != this) return nullptr;
  if (after == a) return a;
  if (!after->next_) return InsertEndChild(a);
  if (a->parent_) a->parent_->Unlink(a);
  a->prev_ = after; a->next_ = after->next_; after->next_->prev_ = a; after->next_ = a; a->parent_ = this; return a;
}
static bool nameEq(const char* a, const char* b) { return !b || !std::strcmp(a, b); }
const XMLElement* XMLNode::FirstChildElement(const char* name) const {
  for (const XMLNode* n = first_; n; n = n->next_) { const XMLElement* e = n->ToElement(); if (e && nameEq(e->Name(), name)) return e; } return nullptr; }
const XMLElement* XMLNode::LastChildElement(const char* name) const {
  for (const XMLNode* n = last_; n; n = n->prev_) { const XMLElement* e = n->ToElement(); if (e && nameEq(e->Name(), name)) return e; } return nullptr; }
const XMLElement* XMLNode::NextSiblingElement(const char* name) const {
  for (const XMLNode* n = next_; n; n = n->next_) { const XMLElement* e = n->ToElement(); if (e && nameEq(e->Name(), name)) return e; } return nullptr; }
const XMLElement* XMLNode::PreviousSiblingElement(const char* name) const {
  for (const XMLNode* n = prev_; n; n = n->prev_) { const XMLElement* e = n->ToElement(); if (e && nameEq(e->Name(), name)) return e; } return nullptr; }
XMLNode* XMLNode::DeepClone(XMLDocument* target) const {
  XMLNode* c = ShallowClone(target); if (!c) return nullptr;
  for (const XMLNode* ch = first_; ch; ch = ch->next_) { XMLNode* cc = ch->DeepClone(target); if (cc) c->InsertEndChild(cc); }
  return c;
}
XMLNode* XMLText::ShallowClone(XMLDocument* d) const { if (!d) d = doc_; XMLText* t = d->NewText(Value()); t->line_ = line_; return t; }
XMLNode* XMLComment::ShallowClone(XMLDocument* d) const { if (!d) d = doc_; XMLComment* t = d->NewComment(Value()); t->line_ = line_; return t; }
XMLNode* XMLDeclaration::ShallowClone(XMLDocument* d) const { if (!d) d = doc_; XMLDeclaration* t = d->NewDeclaration(Value()); return t; }
XMLNode* XMLUnknown::ShallowClone(XMLDocument* d) const { if (!d) d = doc_; return d->NewUnknown(Value()); }
//---------------- element
XMLElement::~XMLElement() { while (attrs_) { XMLAttribute* n = attrs_->next_; delete attrs_; attrs_ = n; } }
const XMLAttribute* XMLElement::FindAttribute(const char* name) const { for (XMLAttribute* a = attrs_; a; a = a->next_) if (a->name_ == name) return a; return nullptr; }
const char* XMLElement::Attribute(const char* name, const char* value) const {
  const XMLAttribute* a = FindAttribute(name); if (!a) return nullptr; if (!value || a->value_ == value) return a->Value(); return nullptr; }
void XMLElement::SetAttribute(const char* name, const char* value) {
  XMLAttribute* last = nullptr;
  for (XMLAttribute* a = attrs_; a; last = a, a = a->next_) if (a->name_ == name) { a->value_ = value ? value : ""; return; }
  XMLAttribute* n = new XMLAttribute; n->name_ = name; n->value_ = value ? value : ""; if (last) last->next_ = n; else attrs_ = n;
}
void XMLElement::SetAttribute(const char* name, int v) { char b[64]; snprintf(b, sizeof b, "%d", v); SetAttribute(name, b); }
void XMLElement::SetAttribute(const char* name, double v) { char b[64]; snprintf(b, sizeof b, "%.17g", v); SetAttribute(name, b); }
void XMLElement::DeleteAttribute(const char* name) {
  XMLAttribute* prev = nullptr; for (XMLAttribute* a = attrs_; a; prev = a, a = a->next_) if (a->name_ == name) { if (prev) prev->next_ = a->next_; else attrs_ = a->next_; delete a; return; } }
const char* XMLElement::GetText() const { for (const XMLNode* n = first_; n; n = n->next_) { if (n->ToComment()) continue; if (n->ToText()) return n->Value(); break; } return nullptr; }
XMLNode* XMLElement::ShallowClone(XMLDocument* d) const {
  if (!d) d = doc_; XMLElement* e = d->NewElement(Name()); e->line_ = line_;
  for (const XMLAttribute* a = attrs_; a; a = a->next_) e->SetAttribute(a->Name(), a->Value());
  return e;
}
//---------------- document
XMLElement* XMLDocument::NewElement(const char* name) { XMLElement* e = new XMLElement(this); e->SetValue(name); return e; }
XMLComment* XMLDocument::NewComment(const char* s) { XMLComment* e = new XMLComment(this); e->SetValue(s); return e; }
XMLText* XMLDocument::NewText(const char* s) { XMLText* e = new XMLText(this); e->SetValue(s); return e; }
XMLDeclaration* XMLDocument::NewDeclaration(const char* s) { XMLDeclaration* e = new XMLDeclaration(this); e->SetValue(s ? s : "xml version=\"1.0\" encoding=\"UTF-8\""); return e; }
XMLUnknown* XMLDocument::NewUnknown(const char* s) { XMLUnknown* e = new XMLUnknown(this); e->SetValue(s); return e; }
void XMLDocument::DeleteNode(XMLNode* n) { if (!n) return; if (n->parent_) n->parent_->DeleteChild(n); else delete n; }
static const char* kErrNames[] = { "XML_SUCCESS","XML_NO_ATTRIBUTE","XML_WRONG_ATTRIBUTE_TYPE","XML_ERROR_FILE_NOT_FOUND","XML_ERROR_FILE_COULD_NOT_BE_OPENED",
  "XML_ERROR_FILE_READ_ERROR","XML_ERROR_PARSING_ELEMENT","XML_ERROR_PARSING_ATTRIBUTE","XML_ERROR_PARSING_TEXT","XML_ERROR_PARSING_CDATA","XML_ERROR_PARSING_COMMENT",
  "XML_ERROR_PARSING_DECLARATION","XML_ERROR_PARSING_UNKNOWN","XML_ERROR_EMPTY_DOCUMENT","XML_ERROR_MISMATCHED_ELEMENT","XML_ERROR_PARSING","XML_CAN_NOT_CONVERT_TEXT",
  "XML_NO_TEXT_NODE","XML_ELEMENT_DEPTH_EXCEEDED" };
const char* XMLDocument::ErrorIDToName(XMLError e) { return (e >= 0 && e < XML_ERROR_COUNT) ? kErrNames[e] : "XML_ERROR"; }
const char* XMLDocument::ErrorName() const { return ErrorIDToName(err_); }
void XMLDocument::SetError(XMLError e, int line, const char* what) {
  err_ = e; errline_ = line; char b[512]; snprintf(b, sizeof b, "Error=%s ErrorID=%d (0x%x) Line number=%d%s%s", ErrorIDToName(e), (int)e, (int)e, line, what ? ": " : "", what ? what : ""); errstr_ = b; }
// decode entities in [s, e)
static std::string decode(const char* s, const char* e) {
  std::string o; o.reserve(e - s);
  while (s < e) {
    if (*s == '&') {
      const char* semi = static_cast<const char*>(memchr(s, ';', e - s));
      if (semi && semi - s <= 10) {
        std::string ent(s + 1, semi);
        if (ent == "lt") { o += '<'; s = semi + 1; continue; } if (ent == "gt") { o += '>'; s = semi + 1; continue; }
        if (ent == "amp") { o += '&'; s = semi + 1; continue; } if (ent == "quot") { o += '"'; s = semi + 1; continue; }
        if (ent == "apos") { o += '\''; s = semi + 1; continue; }
        if (!ent.empty() && ent[0] == '#') {
          unsigned long cp = (ent.size() > 1 && (ent[1] == 'x' || ent[1] == 'X')) ? strtoul(ent.c_str() + 2, nullptr, 16) : strtoul(ent.c_str() + 1, nullptr, 10);
          if (cp < 0x80) o += static_cast<char>(cp);
          else if (cp < 0x800) { o += static_cast<char>(0xC0 | (cp >> 6)); o += static_cast<char>(0x80 | (cp & 0x3F)); }
          else if (cp < 0x10000) { o += static_cast<char>(0xE0 | (cp >> 12)); o += static_cast<char>(0x80 | ((cp >> 6) & 0x3F)); o += static_cast<char>(0x80 | (cp & 0x3F)); }
          else { o += static_cast<char>(0xF0 | (cp >> 18)); o += static_cast<char>(0x80 | ((cp >> 12) & 0x3F)); o += static_cast<char>(0x80 | ((cp >> 6) & 0x3F)); o += static_cast<char>(0x80 | (cp & 0x3F)); }
          s = semi + 1; continue;
        }
      }
    }
    if (*s == '\r') { o += '\n'; ++s; if (s < e && *s == '\n') ++s; continue; }
    o += *s++;
  }
  return o;
}
namespace {
struct P { const char* p; const char* e; int line; };
inline bool isNameStart(unsigned char c) { return c >= 128 || isalpha(c) || c == '_' || c == ':'; }
inline bool isNameChar(unsigned char c) { return isNameStart(c) || isdigit(c) || c == '.' || c == '-'; }
inline void skipWs(P& s) { while (s.p < s.e && isspace(static_cast<unsigned char>(*s.p))) { if (*s.p == '\n') s.line++; s.p++; } }
inline bool starts(const P& s, const char* lit) { size_t n = strlen(lit); return static_cast<size_t>(s.e - s.p) >= n && !memcmp(s.p, lit, n); }
inline const char* findStr(P& s, const char* lit) { size_t n = strlen(lit); for (const char* q = s.p; q + n <= s.e; ++q) if (!memcmp(q, lit, n)) return q; return nullptr; }
inline void advanceTo(P& s, const char* q) { for (; s.p < q; ++s.p) if (*s.p == '\n') s.line++; }
}
XMLError XMLDocument::Parse(const char* xml, size_t n) {
  Clear();
  if (!xml || n == 0 || !*xml) { SetError(XML_ERROR_EMPTY_DOCUMENT, 0, nullptr); return err_; }
  if (n == static_cast<size_t>(-1)) n = strlen(xml);
  { size_t m = strnlen(xml, n); n = m; }
  P s{xml, xml + n, 1};
  if (n >= 3 && static_cast<unsigned char>(xml[0]) == 0xEF && static_cast<unsigned char>(xml[1]) == 0xBB && static_cast<unsigned char>(xml[2]) == 0xBF) s.p += 3;
  XMLNode* cur = this; int depth = 0; bool any = false;
  for (;;) {
    // text up to next '<'
    const char* t0 = s.p; int tline = s.line;
    const char* lt = static_cast<const char*>(memchr(s.p, '<', s.e - s.p));
    const char* tend = lt ? lt : s.e;
    bool allws = true; for (const char* q = t0; q < tend; ++q) if (!isspace(static_cast<unsigned char>(*q))) { allws = false; break; }
    if (!allws) {
      if (cur == this) { SetError(XML_ERROR_PARSING_TEXT, tline, nullptr); DeleteChildren(); return err_; }
      XMLText* t = NewText(decode(t0, tend).c_str()); t->line_ = tline; cur->InsertEndChild(t);
    }
    advanceTo(s, tend);
    if (!lt) break;
    int line = s.line;
    if (starts(s, "<!--")) {
      P b = s; b.p += 4; const char* end = findStr(b, "-->");
      if (!end) { SetError(XML_ERROR_PARSING_COMMENT, line, nullptr); DeleteChildren(); return err_; }
      XMLComment* c = NewComment(std::string(s.p + 4, end).c_str()); c->line_ = line; cur->InsertEndChild(c); advanceTo(s, end + 3); any = true; continue;
    }
    if (starts(s, "<![CDATA[")) {
      P b = s; b.p += 9; const char* end = findStr(b, "]]>");
      if (!end || cur == this) { SetError(XML_ERROR_PARSING_CDATA, line, nullptr); DeleteChildren(); return err_; }
      XMLText* t = NewText(std::string(s.p + 9, end).c_str()); t->line_ = line; cur->InsertEndChild(t); advanceTo(s, end + 3); continue;
    }
    if (starts(s, "<?")) {
      P b = s; b.p += 2; const char* end = findStr(b, "?>");
      if (!end) { SetError(XML_ERROR_PARSING_DECLARATION, line, nullptr); DeleteChildren(); return err_; }
      XMLDeclaration* d = NewDeclaration(std::string(s.p + 2, end).c_str()); d->line_ = line; cur->InsertEndChild(d); advanceTo(s, end + 2); any = true; continue;
    }
    if (starts(s, "<!")) {
      P b = s; b.p += 2; const char* end = static_cast<const char*>(memchr(b.p, '>', b.e - b.p));
      if (!end) { SetError(XML_ERROR_PARSING_UNKNOWN, line, nullptr); DeleteChildren(); return err_; }
      XMLUnknown* u = NewUnknown(std::string(s.p + 2, end).c_str()); u->line_ = line; cur->InsertEndChild(u); advanceTo(s, end + 1); any = true; continue;
    }
    if (starts(s, "</")) {
      s.p += 2; const char* n0 = s.p; while (s.p < s.e && isNameChar(static_cast<unsigned char>(*s.p))) s.p++;
      std::string name(n0, s.p); skipWs(s);
      if (s.p >= s.e || *s.p != '>' || cur == this || name != cur->Value()) { SetError(XML_ERROR_MISMATCHED_ELEMENT, line, name.c_str()); DeleteChildren(); return err_; }
      s.p++; cur = cur->parent_; depth--; continue;
    }
    // element
    s.p++;
    if (s.p >= s.e || !isNameStart(static_cast<unsigned char>(*s.p))) { SetError(XML_ERROR_PARSING_ELEMENT, line, nullptr); DeleteChildren(); return err_; }
    const char* n0 = s.p; while (s.p < s.e && isNameChar(static_cast<unsigned char>(*s.p))) s.p++;
    XMLElement* el = NewElement(std::string(n0, s.p).c_str()); el->line_ = line; cur->InsertEndChild(el); any = true;
    XMLAttribute* lastattr = nullptr; bool closed = false, selfclose = false;
    while (s.p < s.e) {
      skipWs(s);
      if (s.p >= s.e) break;
      if (*s.p == '>') { s.p++; closed = true; break; }
      if (*s.p == '/') { if (s.p + 1 < s.e && s.p[1] == '>') { s.p += 2; closed = true; selfclose = true; break; } SetError(XML_ERROR_PARSING_ELEMENT, s.line, el->Name()); DeleteChildren(); return err_; }
      if (!isNameStart(static_cast<unsigned char>(*s.p))) { SetError(XML_ERROR_PARSING_ATTRIBUTE, s.line, el->Name()); DeleteChildren(); return err_; }
      const char* a0 = s.p; int aline = s.line; while (s.p < s.e && isNameChar(static_cast<unsigned char>(*s.p))) s.p++;
      std::string an(a0, s.p); skipWs(s);
      if (s.p >= s.e || *s.p != '=') { SetError(XML_ERROR_PARSING_ATTRIBUTE, s.line, el->Name()); DeleteChildren(); return err_; }
      s.p++; skipWs(s);
      if (s.p >= s.e || (*s.p != '"' && *s.p != '\'')) { SetError(XML_ERROR_PARSING_ATTRIBUTE, s.line, el->Name()); DeleteChildren(); return err_; }
      char q = *s.p++; const char* v0 = s.p; const char* v1 = static_cast<const char*>(memchr(s.p, q, s.e - s.p));
      if (!v1) { SetError(XML_ERROR_PARSING_ATTRIBUTE, s.line, el->Name()); DeleteChildren(); return err_; }
      if (el->FindAttribute(an.c_str())) { SetError(XML_ERROR_PARSING_ATTRIBUTE, aline, el->Name()); DeleteChildren(); return err_; }
      XMLAttribute* a = new XMLAttribute; a->name_ = an; a->value_ = decode(v0, v1); a->line_ = aline;
      if (lastattr) lastattr->next_ = a; else el->attrs_ = a; lastattr = a;
      advanceTo(s, v1 + 1);
    }
    if (!closed) { SetError(XML_ERROR_PARSING_ELEMENT, line, el->Name()); DeleteChildren(); return err_; }
    if (!selfclose) { cur = el; if (++depth > 500) { SetError(XML_ELEMENT_DEPTH_EXCEEDED, line, nullptr); DeleteChildren(); return err_; } }
  }
  if (cur != this) { SetError(XML_ERROR_PARSING, s.line, "unclosed element"); DeleteChildren(); return err_; }
  if (!any || !FirstChild()) { SetError(XML_ERROR_EMPTY_DOCUMENT, 0, nullptr); return err_; }
  return XML_SUCCESS;
}
XMLError XMLDocument::LoadFile(const char* fn) {
  Clear(); FILE* f = fn ? fopen(fn, "rb") : nullptr; if (!f) { SetError(XML_ERROR_FILE_NOT_FOUND, 0, fn); return err_; }
  std::string data; char b[65536]; size_t n; while ((n = fread(b, 1, sizeof b, f)) > 0) data.append(b, n); fclose(f);
  return Parse(data.data(), data.size());
}
XMLError XMLDocument::SaveFile(const char* fn, bool compact) {
  FILE* f = fopen(fn, "w"); if (!f) { SetError(XML_ERROR_FILE_COULD_NOT_BE_OPENED, 0, fn); return err_; }
  XMLPrinter pr(f, compact); Print(&pr); fclose(f); return XML_SUCCESS;
}
void XMLDocument::Print(XMLPrinter* pr) const { if (pr) pr->VisitNode(this, 0); else { XMLPrinter stdoutp(stdout); stdoutp.VisitNode(this, 0); } }
//---------------- printer
void XMLPrinter::PrintString(const char* s, bool attr) {
  for (; *s; ++s) { switch (*s) { case '&': Write("&amp;"); break; case '<': Write("&lt;"); break; case '>': Write("&gt;"); break;
    case '"': if (attr) Write("&quot;"); else Write("\"", 1); break; default: Write(s, 1); } } }
void XMLPrinter::VisitNode(const XMLNode* n, int depth) {
  if (const XMLDocument* d = const_cast<XMLNode*>(n)->ToDocument()) { for (const XMLNode* c = d->FirstChild(); c; c = c->NextSibling()) VisitNode(c, depth); return; }
  if (const XMLElement* e = n->ToElement()) {
    if (!compact_) PrintSpace(depth);
    Write("<"); Write(e->Name());
    for (const XMLAttribute* a = e->FirstAttribute(); a; a = a->Next()) { Write(" "); Write(a->Name()); Write("=\""); PrintString(a->Value(), true); Write("\""); }
    if (e->NoChildren()) { Write("/>"); if (!compact_) Write("\n"); return; }
    bool onlytext = true; for (const XMLNode* c = e->FirstChild(); c; c = c->NextSibling()) if (!c->ToText()) onlytext = false;
    Write(">");
    if (onlytext) { for (const XMLNode* c = e->FirstChild(); c; c = c->NextSibling()) PrintString(c->Value(), false); }
    else { if (!compact_) Write("\n"); for (const XMLNode* c = e->FirstChild(); c; c = c->NextSibling()) VisitNode(c, depth + 1); if (!compact_) PrintSpace(depth); }
    Write("</"); Write(e->Name()); Write(">"); if (!compact_) Write("\n"); return;
  }
  if (n->ToText()) { if (!compact_) PrintSpace(depth); PrintString(n->Value(), false); if (!compact_) Write("\n"); return; }
  if (n->ToComment()) { if (!compact_) PrintSpace(depth); Write("<!--"); Write(n->Value()); Write("-->"); if (!compact_) Write("\n"); return; }
  // declaration / unknown
  if (dynamic_cast<const XMLDeclaration*>(n)) { if (!compact_) PrintSpace(depth); Write("<?"); Write(n->Value()); Write("?>"); if (!compact_) Write("\n"); return; }
  if (!compact_) PrintSpace(depth); Write("<!"); Write(n->Value()); Write(">"); if (!compact_) Write("\n");
}
}  // namespace tinyxml2
