#pragma once
#include <cstddef>
enum LodePNGColorType { LCT_GREY=0, LCT_RGB=2, LCT_PALETTE=3, LCT_GREY_ALPHA=4, LCT_RGBA=6 };
struct LodePNGColorMode { LodePNGColorType colortype; unsigned bitdepth; };
struct LodePNGInfo { unsigned srgb_defined; };
namespace lodepng { struct State { LodePNGColorMode info_raw; LodePNGInfo info_png; State(){info_raw.colortype=LCT_RGBA;info_raw.bitdepth=8;info_png.srgb_defined=0;} }; }
inline unsigned lodepng_decode(unsigned char** out, unsigned* w, unsigned* h, lodepng::State*, const unsigned char*, size_t){*out=nullptr;*w=0;*h=0;return 1;}
inline const char* lodepng_error_text(unsigned){return "PNG decoding unavailable (verification stub)";}
inline size_t lodepng_get_raw_size(unsigned, unsigned, const LodePNGColorMode*){return 0;}
