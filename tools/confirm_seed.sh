#!/bin/bash
# usage: confirm_seed.sh <ID> [demo-file]    (inputs in /tmp/seeded_out/<ID>/; output summary on stdout)
# 1. base library from /repo HEAD (cached in /tmp/conf_base), 2. patched library in a scratch worktree,
# 3. demo against both (expects pass before / fail after), 4. existing pytest suite on the patched worktree.
set -u
ID=$1; SRC=${SEEDSRC:-/tmp/seeded_out}/$ID; DEMO=${2:-$(ls $SRC/demo.c* | head -1)}
MODE=${MODE:-plain}
HEAD=$(git -C /repo rev-parse --short HEAD)
BASE=/tmp/conf_base_${HEAD}_$MODE
if [ ! -f $BASE/libmujoco.a ]; then
  git -C /repo worktree add -q --detach /tmp/wt_conf_base HEAD && /tmp/agent_kit/build_lib.sh /tmp/wt_conf_base $BASE $MODE >/dev/null 2>&1; git -C /repo worktree remove --force /tmp/wt_conf_base
fi
WT=/tmp/wt_conf_$ID
git -C /repo worktree remove --force $WT 2>/dev/null; git -C /repo worktree add -q --detach $WT HEAD
if ! git -C $WT apply $SRC/patch.diff; then echo "PATCH DOES NOT APPLY"; git -C /repo worktree remove --force $WT; exit 3; fi
/tmp/agent_kit/build_lib.sh $WT $WT/_build $MODE >/dev/null 2>&1 || { echo "PATCHED BUILD FAILED"; git -C /repo worktree remove --force $WT; exit 3; }
SAN=""; CXX=g++; [ $MODE = asan ] && SAN="-fsanitize=address" && CXX=clang++; [ $MODE = tsan ] && SAN="-fsanitize=thread" && CXX=clang++
COMP=$CXX; case $DEMO in *.c) COMP=${CXX/++/}; [ $COMP = g ] && COMP=gcc; [ $COMP = clang ] && COMP=clang;; esac
STD="-std=c++20"; case $DEMO in *.c) STD="-std=gnu11";; esac
$COMP $STD -O1 $SAN -I$WT/include -I$WT/src $DEMO $BASE/libmujoco.a -lpthread -lm -ldl -lstdc++ -o $WT/_build/demo_base 2>$WT/_build/cc_base.log || { echo "DEMO DOES NOT BUILD (base)"; tail -5 $WT/_build/cc_base.log; }
$COMP $STD -O1 $SAN -I$WT/include -I$WT/src $DEMO $WT/_build/libmujoco.a -lpthread -lm -ldl -lstdc++ -o $WT/_build/demo_patched 2>$WT/_build/cc_p.log || { echo "DEMO DOES NOT BUILD (patched)"; tail -5 $WT/_build/cc_p.log; }
( cd $WT/_build && timeout ${DEMO_TIMEOUT:-300} ./demo_base > out_base.txt 2>&1; echo "demo on unmodified tree: rc=$? :: $(tail -2 out_base.txt | tr '\n' ' ' | cut -c1-300)" )
( cd $WT/_build && timeout ${DEMO_TIMEOUT:-300} ./demo_patched > out_patched.txt 2>&1; echo "demo on patched tree:    rc=$? :: $(tail -2 out_patched.txt | tr '\n' ' ' | cut -c1-300)" )
( cd $WT && timeout 900 /venv/bin/python -m pytest -q -p no:cacheprovider --timeout=900 --continue-on-collection-errors 2>&1 | tail -1 | sed 's/^/existing suite on patched tree: /' )
git -C /repo worktree remove --force $WT
