#!/bin/bash
# usage: mutant.sh <name> <file-relative-to-repo> <python-replace-expr old> <new> -- <check args...>
# Creates a scratch copy of /repo's src+include under /tmp/vmut/<name>, applies a textual mutation,
# runs the check against it with a private build dir, prints the outcome, removes everything.
set -e
name=$1; file=$2; old=$3; new=$4; shift 4; [ "$1" = "--" ] && shift
root=/tmp/vmut/$name
rm -rf $root; mkdir -p $root/repo
cp -r /repo/src /repo/include $root/repo/
ln -s /repo/model $root/repo/model; ln -s /repo/test $root/repo/test
python3 - "$root/repo/$file" "$old" "$new" <<'PY'
import sys
p,old,new=sys.argv[1:4]
s=open(p).read()
if s.count(old)!=1:
    print("MUTATION TARGET COUNT =",s.count(old)); sys.exit(3)
open(p,'w').write(s.replace(old,new))
PY
# warm the build dir from the main cache so only the mutated file is recompiled
mkdir -p $root/build
cp -r /verif/build/* $root/build/ 2>/dev/null || true
rm -rf $root/build/work
set +e
VERIF_REPO=$root/repo VERIF_BUILD=$root/build VERIF_REPLAY_DIR=$root/replays VERIF_EVIDENCE_DIR=$root/evidence timeout 1800 python3 /verif/checks/run.py "$@" > $root/out.txt 2>&1
rc=$?
set -e
echo "== mutant $name rc=$rc"; grep -E "VIOLATION|KNOWN|HARNESS|class=" $root/out.txt | head -8; tail -1 $root/out.txt; if [ -n "$KEEP_REPLAY" ]; then mkdir -p /tmp/vmut_replays; cp $root/replays/*.json /tmp/vmut_replays/ 2>/dev/null || true; fi
[ -n "$KEEP" ] || rm -rf $root
