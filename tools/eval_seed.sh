#!/bin/bash
# usage: eval_seed.sh <seed-dir-with-patch.diff> <name> <CHECK> [<CHECK>...]
# Runs the quick tier of the given checks against a scratch worktree of /repo with the patch applied
# (VERIF_REPO/VERIF_BUILD point outside /repo and /verif, so a background soak on /repo is not disturbed).
set -u
SRC=$1; NAME=$2; shift 2
WT=/tmp/wt_eval_$NAME; OUT=/tmp/seed_eval/$NAME
git -C /repo worktree remove --force $WT 2>/dev/null; rm -rf $OUT; mkdir -p $OUT
git -C /repo worktree add -q --detach $WT HEAD
git -C $WT apply $SRC/patch.diff || { echo "PATCH DOES NOT APPLY"; git -C /repo worktree remove --force $WT; exit 3; }
mkdir -p $OUT/build; for v in plain asan sim simtsan simls gen; do [ -d /verif/build/$v ] && cp -r /verif/build/$v $OUT/build/; done; cp /verif/build/corpus.txt* $OUT/build/ 2>/dev/null
for c in "$@"; do
  t0=$(date +%s)
  VERIF_REPO=$WT VERIF_BUILD=$OUT/build VERIF_REPLAY_DIR=$OUT/replays VERIF_EVIDENCE_DIR=$OUT/evidence VERIF_SEED=${VERIF_SEED:-1} timeout 2400 python3 /verif/checks/run.py $c --tier ${TIER:-quick} > $OUT/$c.log 2>&1
  rc=$?
  echo "== seed $NAME vs $c: rc=$rc wall=$(( $(date +%s) - t0 ))s"; grep -E "^VIOLATION|^  class=|^HARNESS" $OUT/$c.log | cut -c1-420 | head -8; tail -1 $OUT/$c.log | cut -c1-200
done
git -C /repo worktree remove --force $WT
rm -rf $OUT/build
