#!/bin/bash
# run the quick tier of every listed property sequentially; prints rc and wall per check
cd "$(dirname "$0")/.."
for p in "$@"; do
  t0=$(date +%s)
  timeout 1500 python3 checks/run.py $p --tier ${TIER:-quick} > /tmp/runall_$p.log 2>&1
  rc=$?
  echo "$p rc=$rc wall=$(( $(date +%s) - t0 ))s :: $(tail -1 /tmp/runall_$p.log | cut -c1-200)"
done
