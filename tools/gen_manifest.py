#!/usr/bin/env python3
"""Regenerates MANIFEST.json from the table below (kept in one place so it is always valid)."""
import json, os
V = os.path.dirname(os.path.dirname(os.path.abspath(__file__)))
CLAIMED = {
 # id: (engine, category, technique, level text, level note, design_ref)
 "C02": ("vsim", "exploration", "deterministic simulation: the whole unmodified engine (real island-solve and narrow-phase tasks, atomic stack reservation) on simulated pool workers under seeded schedules with basic-block preemption; pool-less twin compared bitwise after every call; TSan-in-the-loop race oracle",
         "Seeded search over (model family, options, pool size 1-8 with mid-history resize, call history, schedule). Sampling, not exhaustive.",
         "Generous memory; sequentially consistent execution (unsynchronised accesses only through the TSan stage); tactile-sensor dispatch not reached; one recorded race (dense PGS island residual) suppressed by call site.", "3/C02"),
 "C03": ("vsim", "exploration", "deterministic simulation: seeded schedule search (random/sticky/PCT/starvation, basic-block preemption) over the unmodified thread pool, exactly-once/late-task/deadlock/livelock oracles, TSan-in-the-loop race oracle",
         "Seeded search over interleavings of the dispatcher and pool workers at atomic-operation and basic-block granularity, over short create/resize/dispatch/destroy histories; every failure replays from a decision list. Sampling, not exhaustive: the right level for a lock-free protocol whose bugs need specific interleavings.",
         "Sequentially consistent execution (weak-memory mistakes only via the TSan stage); std::atomic/std::thread re-bound by a force-included prelude; engine_thread.cc unmodified.", "3/C03"),
 "C18": ("histsim", "exploration", "deterministic simulation of operation histories in simulated time: seeded scenes with sleeping enabled, user events (state/force writes, mocap moves, equality toggles) injected at seeded instants, invariants checked after every step plus a sleep-off twin",
         "Seeded search over (scene, event history); invariants are evaluated after every simulated step.",
         "qpos events move a joint by >= 0.02; 'touches' asserted only for penetrating active contacts; twin compared only while no tree has slept.", "4/C18"),
 "C20": ("faultsim", "fault_enumeration", "fault injection by enumeration: every arena size (step 8 bytes) from 0 to the need of forward+3 steps makes a different arena allocation the first to fail; ASan build with the engine's own arena poisoning; outcome compared with the ample-memory run",
         "Exhaustive over arena sizes (8-byte steps) for each seeded model whose need is below the per-model execution budget; boundaries plus a seeded sample above it. Models are sampled from scene families chosen per allocation site.",
         "mju_error from the stack allocator is an accepted outcome; truncation must be signalled by a warning.", "4/C20"),
 "C21": ("faultsim", "fault_enumeration", "fault injection by enumeration: the k-th call of the public allocator hook fails, for every k of three API scenarios, then seeded multi-fault runs; tracking allocator (leak / double free / foreign free), ASan+UBSan, fault-free re-run in the same process as recovery oracle",
         "Exhaustive single allocation faults per (model, scenario); seeded multi-fault sequences; models sampled.",
         "Only mju_malloc blocks are tracked; listed leak shapes are known findings (mju_malloc raises inside itself).", "4/C21"),
 "C30": ("histsim", "exploration", "deterministic simulation with fault injection into a running simulation: NaN/Inf/huge values written into state and input arrays at seeded steps; finite-state invariant after every step, warning counters, reset-twin equality",
         "Seeded search over (model, control history, fault value x location x instant, autoreset, sleep).",
         "Four recorded findings (act of disabled actuator, RK4 sub-stages, mocap_pos with implicit integrators) are tolerated by key; everything else is a violation.", "4/C30"),
 "C31": ("faultsim", "fault_enumeration", "fault injection on a simulated disk (registered resource provider): torn/short/failed/lost writes and short reads, every truncation length (crash points), byte/field/burst corruption at rest; exact-size heap buffers under ASan; tracking allocator for leaks on rejection; independent bounds table",
         "Exhaustive truncation lengths for files up to the tier's bound (boundaries+sample above); exhaustive single-byte substitutions over header and sizes within budget; illegal and boundary values in 36 cross-reference fields; seeded bursts. Models sampled.",
         "An mju_error is accepted only when it is the harness's own allocation cap; -1 accepted in non-optional reference fields is a recorded finding.", "4/C31"),
 "C39": ("histsim", "exploration", "deterministic simulation of operation histories against a dictionary reference model, with file faults (missing, empty, rewritten between adds) on real scratch files",
         "Seeded search over add/delete/lookup/read histories on 6 names (strict model) and on alias classes (documented codes only).",
         "Which spellings alias is not asserted; result of adding an unreadable file is not asserted.", "4/C39"),
 "C01": ("histsim", "exploration", "deterministic simulation of operation histories: seeded op sequences on a carrier mjData, twins manufactured by six routes (copy / state transfer into fresh, reset, used-and-poisoned instances / replay), volatile-state poison and seeded arena garbage as the injected fault, bitwise comparison",
         "Seeded search over (model, history, twin route): any read of stale or uninitialised non-state memory changes bits. Sampling over models and histories, which is what the quantifier (every prior history of the receiver) asks for and unit tests cannot give.",
         "Same binary, same process comparisons only; sleep-enabled models use copy/replay routes only (documented); mj_inverse preceded by mj_forward; documented list of lazily/conditionally computed arrays excluded on state-only routes.", "4/C01"),
 "C04": ("histsim", "exploration", "deterministic simulation of operation histories: staged call on a used instance vs monolithic call on its full copy, seeded input changes between stages, stale lazy flags injected, bitwise comparison of the whole mjData",
         "Seeded search over (model, prefix history, rule sequence, inputs changed between stages).",
         "step1/step2 equivalence excludes RK4, sleeping and steps in which an automatic reset fires (documented); with sleeping enabled skip rules change no inputs.", "4/C04"),
 "C26": ("histsim", "exploration", "deterministic simulation of operation histories on used instances: seeded and exhaustive state signatures, canary-padded buffers, whole-mjData 'nothing else changed' diff, reset vs fresh after volatile-state poison",
         "Seeded signatures per model plus all 2^14 signatures for small models; receivers are used (stepped, poisoned) instances.",
         "Plugin state not exercised; arena scratch arrays excluded from reset comparison.", "4/C26"),
 "C38": ("vsim", "exploration", "deterministic simulation: sequential histories against a reference model op by op; 2-3 simulated threads under seeded schedules checked for linearizability (WGL search) against the same model; TSan-in-the-loop",
         "Seeded search over operation histories and interleavings of the unmodified mjCCache.",
         "Reference model encodes only the clauses of the statement; concurrent histories capped at 12 operations; sequentially consistent execution.", "3/C38"),
 "C40": ("vsim", "exploration", "deterministic simulation: seeded schedule search over concurrent registrations/lookups across the table block boundary, history oracle (dense, stable, unique slots; no partial object; real-time order), TSan-in-the-loop",
         "Seeded search over interleavings of 2-4 simulated threads registering and looking up objects in the unmodified GlobalTable (fresh table per run) and through the real plugin/provider API (forked child per run).",
         "Sequentially consistent execution; TSan stage for publication order; decoders/encoders covered through the shared template only.", "3/C40"),
}
NA = {
 "C05": "pure map (state, model) -> next state: no schedule, clock, I/O, fault or history for a simulator to own",
 "C06": "algebraic identities on one configuration: pure function of its input",
 "C07": "kinematics/Jacobians vs finite differences: pure function of qpos",
 "C08": "numerical-analysis invariant of one deterministic trajectory: nothing to schedule or fault",
 "C09": "forward/inverse agreement: identity at one state",
 "C10": "solver optimality: convex optimum at one state; needs a reference optimizer, not a simulator",
 "C11": "constraint-force admissibility: pointwise inequality on one solve",
 "C12": "constraint-cost derivatives: calculus identity",
 "C13": "contact geometry of primitive pairs: analytic geometry per pose",
 "C14": "collision pair selection: set equality with brute force per configuration",
 "C15": "convex narrow-phase distances: per-pose geometry (and libccd is a stand-in here)",
 "C16": "ray casting: per-ray geometry",
 "C17": "constraint islands: connected components of one constraint set; pure sequential routine",
 "C22": "sort/select utilities: pure array functions",
 "C23": "linear algebra routines: pure matrix functions",
 "C24": "rotation/pose utilities: pure algebra",
 "C25": "analytic vs finite-difference derivatives: pure calculus check",
 "C27": "actuation laws: pure function of (ctrl, act, state)",
 "C28": "sensor semantics: pure function of state",
 "C29": "passive force laws: pure function of state",
 "C32": "XML save/recompile round trip: pure text->model map, and it would run on the tinyxml2 stand-in",
 "C34": "name lookup: pure function of model and query string",
 "C35": "compiled mass properties: pure geometry of the compiler",
 "C36": "equivalent model spellings: pure compiler equivalence",
 "C37": "loader robustness to arbitrary text: input fuzzing, and the XML tokenizer here is a stand-in",
 "C41": "schema-language parser totality: pure Python text function",
 "C42": "schema generators: pure Python translation",
 "C43": "MJX vs C engine: pure numerical comparison; no Python binding of this tree can be built offline",
 "C44": "MJX jit/vmap/transfer transparency: pure; same binding obstacle",
 "C45": "MJX gradients: pure calculus check",
 "C46": "bounded least squares: pure deterministic optimizer",
 "C47": "sysid inertia parameterization: pure algebra",
 "C48": "sysid signal transforms: aliasing property of pure array functions",
 "C49": "introspection metadata vs headers: static comparison",
 "C51": "first-party plugin laws: pure control-law arithmetic; plugins are not built here",
}
PENDING = {}
for l in open(os.path.join(V, "properties.jsonl")):
    p = json.loads(l)
    if p["id"] not in CLAIMED and p["id"] not in NA:
        PENDING[p["id"]] = "check not implemented yet in this round (planned: see DESIGN.md section 0)"
checks = []
for pid, (eng, cat, tech, text, note, ref) in sorted(CLAIMED.items()):
    checks.append({
        "property_id": pid,
        "quick_cmd": "python3 checks/run.py %s --tier quick" % pid,
        "thorough_cmd": "python3 checks/run.py %s --tier thorough" % pid,
        "evidence_file": "evidence/%s.json" % pid,
        "replay_cmd_template": "python3 checks/run.py --replay {path}",
        "engine": eng,
        "level_claimed": {"category": cat, "text": text, "design_ref": "DESIGN.md section " + ref},
        "level_note": note,
        "technique": tech,
    })
m = {
 "version": 1,
 "setup_cmd": "python3 vbuild/build.py --all && python3 checks/run.py --selftest",
 "hooks": {"guard": "MUJOCO_VERIF", "enable": "no source hooks: the simulator re-binds std::atomic/thread/mutex/condition_variable at compile time through a force-included prelude (-include vsim/prelude.h) and uses the public seams mju_user_malloc/free, mju_user_error/warning, mjp_registerResourceProvider, m->narena",
           "baseline_off_cmd": "cd /repo && /venv/bin/python -m pytest -ra -q -p no:cacheprovider --timeout=900 --continue-on-collection-errors", "source_commits": [], "add_only": True},
 "engines": [
  {"name": "vsim", "path": "vsim/", "serves_properties": ["C02", "C03", "C19", "C33", "C38", "C40"], "kind_free_text": "deterministic scheduler (real pthreads, futex baton, one PRNG) under the unmodified sources; TSan-in-the-loop"},
  {"name": "faultsim", "path": "drivers/", "serves_properties": ["C20", "C21", "C31", "C50"], "kind_free_text": "enumerated and seeded fault injection (allocation, arena, disk, capacity) against ASan builds"},
  {"name": "histsim", "path": "drivers/", "serves_properties": ["C01", "C04", "C18", "C26", "C30", "C39"], "kind_free_text": "seeded operation histories against twins and reference models, volatile-state poison"},
 ],
 "checks": checks,
 "not_applicable": [{"property_id": k, "reason": v} for k, v in sorted({**NA, **PENDING}.items())],
 "notes": "Every check rebuilds /repo's current working tree through vbuild (no CMake; third-party libraries are stand-ins under stubs/). Exit 2 = harness failure, never a verdict.",
}
json.dump(m, open(os.path.join(V, "MANIFEST.json"), "w"), indent=1)
print("claimed", len(checks), "not_applicable", len(m["not_applicable"]))
